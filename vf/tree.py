"""Load rbql from the repository working tree (never from site-packages)."""
import os, sys, warnings

REPO = os.path.realpath(os.environ.get('VERIF_REPO', '/repo'))
PY_ROOT = os.path.join(REPO, 'rbql-py')
JS_ROOT = os.path.join(REPO, 'rbql-js')
sys.dont_write_bytecode = True

_loaded = None


def load():
    """Return the tree's rbql package; assert its origin."""
    global _loaded
    if _loaded is not None:
        return _loaded
    warnings.filterwarnings('ignore', category=SyntaxWarning)
    warnings.filterwarnings('ignore', category=DeprecationWarning)
    for name in list(sys.modules):
        if name == 'rbql' or name.startswith('rbql.'):
            del sys.modules[name]
    if PY_ROOT in sys.path:
        sys.path.remove(PY_ROOT)
    sys.path.insert(0, PY_ROOT)
    import rbql
    from rbql import rbql_engine, rbql_csv, csv_utils  # noqa
    origin = os.path.realpath(rbql.__file__)
    if not origin.startswith(REPO + os.sep):
        raise SystemExit('HARNESS-ERROR: rbql imported from %s, not from %s' % (origin, REPO))
    _loaded = rbql
    return rbql


def engine():
    load()
    from rbql import rbql_engine
    return rbql_engine


def csvmod():
    load()
    from rbql import rbql_csv
    return rbql_csv


def csv_utils():
    load()
    from rbql import csv_utils
    return csv_utils


def split_function():
    """Helper-level splitter of the tree, tolerant of refactorings: returns f(line, dlm, policy, preserve) -> (fields, warning) or None.
    The properties name csv_utils.smart_split / split_quoted_str "when present"; when neither exists only the public reader path decides."""
    cu = csv_utils()
    if hasattr(cu, 'smart_split'):
        return cu.smart_split
    if hasattr(cu, 'get_polymorphic_split_function'):
        return lambda line, dlm, policy, preserve: cu.get_polymorphic_split_function(dlm, policy, preserve)(line)
    if hasattr(cu, 'split_quoted_str'):
        def f(line, dlm, policy, preserve):
            if policy in ('quoted', 'quoted_rfc'):
                return cu.split_quoted_str(line, dlm, preserve)
            return None
        return f
    return None
