"""Load rbql from the repository working tree (never from site-packages)."""
import os, sys, warnings

REPO = os.path.realpath(os.environ.get('VERIF_REPO', '/repo'))
PY_ROOT = os.path.join(REPO, 'rbql-py')
JS_ROOT = os.path.join(REPO, 'rbql-js')
sys.dont_write_bytecode = True

_loaded = None


def load():
    """Return the tree's rbql package; assert its origin."""
    global _loaded
    if _loaded is not None:
        return _loaded
    warnings.filterwarnings('ignore', category=SyntaxWarning)
    warnings.filterwarnings('ignore', category=DeprecationWarning)
    for name in list(sys.modules):
        if name == 'rbql' or name.startswith('rbql.'):
            del sys.modules[name]
    if PY_ROOT in sys.path:
        sys.path.remove(PY_ROOT)
    sys.path.insert(0, PY_ROOT)
    import rbql
    from rbql import rbql_engine, rbql_csv, csv_utils  # noqa
    origin = os.path.realpath(rbql.__file__)
    if not origin.startswith(REPO + os.sep):
        raise SystemExit('HARNESS-ERROR: rbql imported from %s, not from %s' % (origin, REPO))
    _loaded = rbql
    return rbql


def engine():
    load()
    from rbql import rbql_engine
    return rbql_engine


def csvmod():
    load()
    from rbql import rbql_csv
    return rbql_csv


def csv_utils():
    load()
    from rbql import csv_utils
    return csv_utils
