"""Cooperative two-thread scheduler: only the thread holding the baton runs; a schedule is the sequence of thread ids granted the baton."""
import threading


class Baton(object):
    def __init__(self, nthreads):
        self.go = [threading.Semaphore(0) for _ in range(nthreads)]
        self.arrived = threading.Semaphore(0)
        self.done = [False] * nthreads
        self.points = [0] * nthreads

    # called by worker threads
    def point(self, tid):
        """scheduling point: give the baton back and wait for it"""
        self.points[tid] += 1
        self.arrived.release()
        self.go[tid].acquire()

    def finished(self, tid):
        self.done[tid] = True
        self.arrived.release()

    # called by the controller
    def step(self, tid):
        """let thread tid run until its next scheduling point (or its end)"""
        self.go[tid].release()
        self.arrived.acquire()


def run_schedule(bodies, schedule_bits, default_other=True):
    """bodies: list of 2 callables taking (baton, tid). schedule_bits: iterable of 0/1 = which thread to run at each step.
    A thread that has already finished is skipped in favour of the other. Returns (trace of tids actually run, points per thread)."""
    n = len(bodies)
    baton = Baton(n)
    threads = []
    for tid, body in enumerate(bodies):
        def runner(tid=tid, body=body):
            baton.go[tid].acquire()          # the start of the query is a scheduling point as well
            try:
                body(baton, tid)
            finally:
                baton.finished(tid)
        t = threading.Thread(target=runner)
        t.daemon = True
        t.start()
        threads.append(t)
    trace = []
    bits = iter(schedule_bits)
    while not all(baton.done):
        try:
            want = next(bits)
        except StopIteration:
            want = 0
        if baton.done[want]:
            want = 1 - want
        trace.append(want)
        baton.step(want)
    for t in threads:
        t.join(5)
    return trace, list(baton.points)
