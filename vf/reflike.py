"""RefLike: SQL LIKE as a position-set automaton (no regular expressions).
% = any (possibly empty) sequence, _ = exactly one character, anything else = itself."""


def closure(p, S):
    out = set(S)
    stack = list(S)
    m = len(p)
    while stack:
        i = stack.pop()
        if i < m and p[i] == '%' and (i + 1) not in out:
            out.add(i + 1)
            stack.append(i + 1)
    return frozenset(out)


def start(p):
    return closure(p, {0})


def step(p, S, c):
    m = len(p)
    nxt = set()
    for i in S:
        if i < m:
            pc = p[i]
            if pc == '%':
                nxt.add(i)
            elif pc == '_' or pc == c:
                nxt.add(i + 1)
    return closure(p, nxt)


def accepts(p, S):
    return len(p) in S


def like(text, pattern):
    S = start(pattern)
    for c in text:
        S = step(pattern, S, c)
        if not S:
            return False
    return accepts(pattern, S)
