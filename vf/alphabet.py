"""Seed-chosen representatives of abstract alphabet classes. The seed never selects cases; it
only picks which concrete characters / names stand for a class."""

_ORD = ['a', 'x', 'Z', '7', 'é', 'ж', '€', '\U0001F600', '_', '-', 'q', 'M']


def ordinary(seed, n):
    """n distinct 'ordinary' characters (never quote, delimiter, space, CR, LF, '#', BOM, tab)"""
    k = seed % len(_ORD)
    rot = _ORD[k:] + _ORD[:k]
    if seed % 2 == 0:
        # even seeds keep the first representative ASCII so ASCII-only paths are exercised every other seed
        rot = [c for c in rot if ord(c) < 128] + [c for c in rot if ord(c) >= 128]
    return rot[:n]


def ascii_ordinary(seed, n):
    pool = [c for c in _ORD if ord(c) < 128 and c not in '_-']
    k = seed % len(pool)
    return (pool[k:] + pool[:k])[:n]


_NAMES = ['name', 'val', 'city', 'Key', 'x_1', 'count2', 'zz', 'Col', 'price', 'id']


def names(seed, n):
    k = seed % len(_NAMES)
    return (_NAMES[k:] + _NAMES[:k])[:n]


_WORDS = ['foo', 'bar', 'baz', 'kk', 'mm', 'nn', 'qux', 'v', 'w']


def words(seed, n):
    k = seed % len(_WORDS)
    return (_WORDS[k:] + _WORDS[:k])[:n]
