"""Runner core: sharded exhaustive enumeration, evidence, findings, replays."""
import os, sys, json, time, hashlib, signal, traceback, collections
import concurrent.futures as cf
import multiprocessing as mp

VERIF = os.path.dirname(os.path.dirname(os.path.realpath(__file__)))
OUT = os.environ.get('VERIF_OUT', VERIF)
NPROC = int(os.environ.get('VERIF_NPROC', '16'))


class CaseTimeout(Exception):
    pass


def _alarm(signum, frame):
    raise CaseTimeout()


class watchdog(object):
    """per-case alarm; a case that does not finish is a violation, not a hang"""
    def __init__(self, seconds=10.0):
        self.seconds = seconds

    def __enter__(self):
        signal.signal(signal.SIGALRM, _alarm)
        signal.setitimer(signal.ITIMER_REAL, self.seconds)

    def __exit__(self, *a):
        signal.setitimer(signal.ITIMER_REAL, 0)
        return False


class Result(object):
    """What one shard reports. All counters are additive; `distinct` sets are merged."""
    def __init__(self):
        self.evaluations = 0
        self.nontrivial = 0
        self.states = 0
        self.transitions = 0
        self.traces = 0
        self.features = collections.Counter()
        self.outcomes = set()
        self.violations = []      # dicts: sig, case, expected, observed, note
        self.nviol = 0
        self.samples = []

    def feat(self, name, n=1):
        self.features[name] += n

    def outcome(self, o):
        if len(self.outcomes) < 20000:
            self.outcomes.add(o if isinstance(o, (str, int)) else repr(o))

    def violation(self, sig, case, expected=None, observed=None, note=''):
        self.nviol += 1
        # keep at most a few examples per signature per shard
        same = sum(1 for v in self.violations if v['sig'] == sig)
        if same < 3:
            self.violations.append({'sig': sig, 'case': jsonable(case), 'expected': jsonable(expected), 'observed': jsonable(observed), 'note': note})

    def sample(self, s):
        if len(self.samples) < 2:
            self.samples.append(jsonable(s))

    def pack(self):
        d = dict(self.__dict__)
        d['features'] = dict(self.features)
        d['outcomes'] = list(self.outcomes)
        return d


def merge(packs):
    tot = Result()
    sigcount = collections.Counter()
    for p in packs:
        tot.evaluations += p['evaluations']
        tot.nontrivial += p['nontrivial']
        tot.states += p['states']
        tot.transitions += p['transitions']
        tot.traces += p['traces']
        tot.features.update(p['features'])
        tot.outcomes.update(p['outcomes'])
        tot.nviol += p['nviol']
        for v in p['violations']:
            sigcount[v['sig']] += 1
            if sigcount[v['sig']] <= 5:
                tot.violations.append(v)
        for s in p['samples']:
            if len(tot.samples) < 6:
                tot.samples.append(s)
    return tot


def _run_shard(args):
    modname, shard = args
    import importlib
    mod = importlib.import_module(modname)
    try:
        res = mod.run_shard(shard)
        return ('ok', res.pack())
    except BaseException:
        return ('crash', traceback.format_exc() + '\nshard=%r' % (shard,))


def run_shards(modname, shards, nproc=None):
    """Run every shard (16-way); returns merged Result. A crashing shard is a harness error (exit 2)."""
    nproc = nproc or NPROC
    packs = []
    if nproc == 1 or len(shards) <= 1:
        for s in shards:
            st, p = _run_shard((modname, s))
            if st != 'ok':
                harness_error(p)
            packs.append(p)
        return merge(packs)
    ctx = mp.get_context('fork')
    with cf.ProcessPoolExecutor(max_workers=min(nproc, len(shards)), mp_context=ctx) as ex:
        _EXECUTOR[0] = ex
        try:
            for st, p in ex.map(_run_shard, [(modname, s) for s in shards], chunksize=1):
                if st != 'ok':
                    harness_error(p)
                packs.append(p)
        except cf.process.BrokenProcessPool as e:
            harness_error('worker process died: %r' % (e,))
    return merge(packs)


_EXECUTOR = [None]


def harness_error(msg):
    ex = _EXECUTOR[0]
    if ex is not None:
        for proc in list(getattr(ex, '_processes', {}).values()):
            try:
                proc.kill()
            except Exception:
                pass
    sys.stdout.flush()
    sys.stderr.write('HARNESS-ERROR: %s\n' % (msg,))
    sys.stderr.flush()
    os._exit(2)


def chunks(n, k):
    """split range(n) into about k contiguous (lo, hi) ranges"""
    k = max(1, min(k, n))
    step = (n + k - 1) // k
    return [(lo, min(n, lo + step)) for lo in range(0, n, step)]


def jsonable(x):
    if isinstance(x, (str, int, float, bool)) or x is None:
        return x
    if isinstance(x, bytes):
        return {'bytes': x.hex()}
    if isinstance(x, (list, tuple)):
        return [jsonable(v) for v in x]
    if isinstance(x, (set, frozenset)):
        return sorted(jsonable(v) for v in x)
    if isinstance(x, dict):
        return {str(k): jsonable(v) for k, v in x.items()}
    return repr(x)


def load_known():
    path = os.path.join(VERIF, 'known_findings.json')
    if not os.path.exists(path):
        return []
    with open(path) as f:
        return json.load(f)['findings']


def write_replay(pid, v):
    d = os.path.join(OUT, 'replays', pid)
    os.makedirs(d, exist_ok=True)
    body = json.dumps(jsonable({'property': pid, 'sig': v['sig'], 'case': v['case'], 'expected': v['expected'],
                                'observed': v['observed'], 'note': v['note']}), indent=1, sort_keys=True, ensure_ascii=True)
    h = hashlib.sha256(body.encode()).hexdigest()[:16]
    path = os.path.join(d, h + '.json')
    with open(path, 'w') as f:
        f.write(body)
    return path


def finish(pid, tier, seed, res, t0, rule, assumptions, extra=None, min_features=None, exhaustive=True):
    """Evidence + verdict. Returns the process exit code."""
    known = [k for k in load_known() if k['property'] == pid and k['status'] == 'known']
    by_sig = {k['signature']: k for k in known}
    reported_known = set()
    real = []
    for v in res.violations:
        if v['sig'] in by_sig:
            reported_known.add(v['sig'])
        else:
            real.append(v)
    # vacuity: a harness whose space lost its interesting cases is broken, not a verdict
    vac = []
    for name, need in (min_features or {}).items():
        if res.features.get(name, 0) < need:
            vac.append('%s=%d<%d' % (name, res.features.get(name, 0), need))
    cov = {
        'states': int(res.states), 'transitions': int(res.transitions),
        'traces_validated_against_impl': int(res.traces),
        'evaluations': int(res.evaluations), 'distinct_nontrivial': int(res.nontrivial),
        'rule': rule, 'samples': jsonable(res.samples) or ['(none)'], 'exhaustive': bool(exhaustive),
        'distinct_outcomes': len(res.outcomes), 'features': dict(sorted(res.features.items())),
        'known_findings_seen': sorted(reported_known),
    }
    if extra:
        cov.update(jsonable(extra))
    ev = {'property_id': pid, 'tier': tier, 'seed': int(seed), 'level': 'model_checking', 'coverage': cov,
          'assumptions': assumptions, 'wall_s': round(time.time() - t0, 2),
          'violations': int(sum(1 for v in real))}
    os.makedirs(os.path.join(OUT, 'evidence'), exist_ok=True)
    with open(os.path.join(OUT, 'evidence', pid + '.json'), 'w') as f:
        json.dump(ev, f, indent=1, sort_keys=True)
    print('%s tier=%s seed=%s evaluations=%d nontrivial=%d states=%d transitions=%d outcomes=%d wall=%.1fs' % (
        pid, tier, seed, res.evaluations, res.nontrivial, res.states, res.transitions, len(res.outcomes), time.time() - t0))
    print('features: ' + ' '.join('%s=%d' % kv for kv in sorted(res.features.items())))
    for sig in sorted(reported_known):
        print('KNOWN-FINDING: property=%s %s' % (pid, by_sig[sig]['description']))
    if vac and not real:
        sys.stderr.write('HARNESS-ERROR: VACUOUS %s: %s\n' % (pid, ', '.join(vac)))
        return 2
    if real:
        seen = set()
        for v in real:
            path = write_replay(pid, v)
            if v['sig'] not in seen:
                seen.add(v['sig'])
                print('  violation sig=%s case=%s\n    expected=%s\n    observed=%s %s' % (
                    v['sig'], json.dumps(jsonable(v['case']))[:600], json.dumps(jsonable(v['expected']))[:400],
                    json.dumps(jsonable(v['observed']))[:400], v['note']))
            print('VIOLATION property=%s replay=%s' % (pid, path))
        print('total violating cases: %d (examples kept: %d)' % (res.nviol, len(real)))
        return 1
    return 0


def run_shard_in_child(modname, shard, env_overrides, unset=()):
    """Run mod.run_shard(shard) in a fresh interpreter whose process environment differs (locale, UTF-8 mode, PYTHONIOENCODING, hash seed ...): the environment is an input
    the explorer owns, like the table and the schedule. Returns the child's Result (re-built from its pack); a child that dies is a harness error."""
    import subprocess, json as _json
    env = dict(os.environ)
    for k in unset:
        env.pop(k, None)
    env.update(env_overrides)
    env['PYTHONWARNINGS'] = 'ignore'
    sh = dict(shard)
    sh.pop('child_env', None)
    sh.pop('child_unset', None)
    code = ("import sys, json; sys.path.insert(0, %r); import importlib; from vf import core; mod = importlib.import_module(%r); "
            "sh = json.loads(sys.stdin.buffer.read().decode('utf-8')); res = mod.run_shard(sh); sys.stdout.buffer.write(json.dumps(res.pack()).encode('utf-8'))" % (VERIF, modname))
    p = subprocess.run([sys.executable, '-c', code], input=_json.dumps(sh).encode('utf-8'), stdout=subprocess.PIPE, stderr=subprocess.PIPE, env=env, timeout=3600)
    if p.returncode != 0:
        raise RuntimeError('child interpreter under %r failed: %s' % (env_overrides, p.stderr.decode('utf-8', 'replace')[-1500:]))
    pack = _json.loads(p.stdout.decode('utf-8'))
    res = Result()
    for k in ('evaluations', 'nontrivial', 'states', 'transitions', 'traces', 'nviol'):
        setattr(res, k, pack[k])
    res.features.update(pack['features'])
    res.outcomes.update(pack['outcomes'])
    for v in pack['violations']:
        v['case'] = dict(v['case'], process_environment=env_overrides) if isinstance(v['case'], dict) else v['case']
        res.violations.append(v)
    res.samples = pack['samples']
    res.feat('child_interpreter_shards')
    return res
