"""C12 - CSV reading depends only on content, never on how the stream is chunked.

Explorer over the environment's answers to stream.read(): for every text up to the bound over
{o, quote, comma, LF, CR, #, space}, every composition (all 2^(n-1) ways the stream can deliver it in
successive reads) and every chunk size 1..n+1 is run through the real CSVRecordIterator; each execution must
equal the whole-text delivery, which in turn must equal RefCSV.ref_read. Byte level: all compositions of
multi-byte UTF-8 samples through the reader's own TextIOWrapper, utf-8 and latin-1.
"""
import io, time, itertools, re
from vf import core, tree, refcsv, alphabet
from vf.envs import PieceText, PieceBytes, compositions

PID = 'C12'
POLICIES = [('simple', ','), ('quoted', ','), ('quoted_rfc', ','), ('whitespace', ' '), ('monocolumn', '')]


def read_all(rc, eng, stream, encoding, dlm, policy, has_header, comment, chunk_size):
    try:
        it = rc.CSVRecordIterator(stream, encoding, dlm, policy, has_header=has_header, comment_prefix=comment, chunk_size=chunk_size)
        header = it.get_header()
        recs = it.get_all_records()
        return (header, recs, tuple(it.get_warnings()), None)
    except eng.RbqlIOHandlingError as e:
        return (None, None, (), 'io:' + str(e))
    except Exception as e:
        return (None, None, (), 'EXC:' + repr(e))


def ref_expect(text, dlm, policy, has_header, comment, bom_char):
    r = refcsv.ref_read(text, dlm, policy, has_header, comment, bom_char)
    return r


def compare_with_ref(base, r, has_header):
    """base = impl single-piece result; r = ReadResult. Returns None or a description."""
    header, recs, warns, err = base
    if r.error is not None:
        if err is None or not err.startswith('io:'):
            return 'reference says defective quoting (IO error) at record %d line %d' % (r.error[1], r.error[2])
        m = re.search(r'at record (\d+), line (\d+)', err)
        if not m or (int(m.group(1)), int(m.group(2))) != (r.error[1], r.error[2]):
            return 'error cites wrong record/line: %s vs %r' % (err, r.error)
        return None
    if err is not None:
        return 'unexpected error ' + err
    if recs != r.records:
        return 'records differ'
    if has_header and header != r.header:
        return 'header differs'
    if (not has_header) and header is not None:
        return 'header without has_header'
    bom = any('BOM' in w for w in warns)
    if bom != r.bom:
        return 'BOM warning %s, expected %s' % (bom, r.bom)
    dq = [w for w in warns if 'double quote' in w]
    if (r.first_defective_line is not None) != bool(dq):
        return 'quoting warning presence'
    if dq:
        m = re.search(r'at line (\d+)', dq[0])
        if not m or int(m.group(1)) != r.first_defective_line:
            return 'quoting warning cites line %s, expected %d' % (dq[0], r.first_defective_line)
    fc = [w for w in warns if 'not consistent' in w]
    if not has_header:
        if (len(r.fields_info) > 1) != bool(fc):
            return 'field-count warning presence'
        if fc:
            firsts = sorted((nr, nf) for nf, nr in r.fields_info.items())[:2]
            m = re.search(r'record (\d+) -> (\d+) fields, record (\d+) -> (\d+) fields', fc[0])
            if not m or [(int(m.group(1)), int(m.group(2))), (int(m.group(3)), int(m.group(4)))] != firsts:
                return 'field-count warning cites %s, expected %r' % (fc[0], firsts)
    return None


def run_text_shard(sh, res):
    rc, eng = tree.csvmod(), tree.engine()
    syms = sh['syms']
    policy, dlm = sh['policy'], sh['dlm']
    for has_header in (False, True):
        for comment in (None, '#'):
            for n in range(sh['minlen'], sh['maxlen'] + 1):
                for tup in itertools.product(syms, repeat=max(0, n - len(sh['first'])) if sh['first'] is not None else n):
                    if sh['first'] is not None:
                        if n < len(sh['first']):
                            continue
                        text = sh['first'] + ''.join(tup)
                    else:
                        text = ''.join(tup)
                    base = read_all(rc, eng, PieceText([text]), None, dlm, policy, has_header, comment, 1024)
                    res.evaluations += 1
                    r = ref_expect(text, dlm, policy, has_header, comment, None)
                    why = compare_with_ref(base, r, has_header)
                    res.traces += 1
                    case = {'kind': 'text', 'text': text, 'policy': policy, 'dlm': dlm, 'has_header': has_header, 'comment': comment}
                    if why:
                        res.violation('reader-vs-reference', case, r.key(), base, why)
                    nontriv = ('\r' in text or '"' in text) and n >= 2
                    res.states += 1 << n
                    for pieces in compositions(text):
                        if len(pieces) <= 1:
                            continue
                        st = PieceText(pieces)
                        got = read_all(rc, eng, st, None, dlm, policy, has_header, comment, 1024)
                        res.evaluations += 1
                        res.transitions += st.calls
                        if nontriv:
                            res.nontrivial += 1
                        if got != base:
                            c = dict(case); c['pieces'] = pieces
                            res.violation('chunk-dependence', c, base, got)
                    for cs in range(1, n + 2):
                        st = PieceText([text])
                        got = read_all(rc, eng, st, None, dlm, policy, has_header, comment, cs)
                        res.evaluations += 1
                        res.transitions += st.calls
                        if got != base:
                            c = dict(case); c['chunk_size'] = cs
                            res.violation('chunk-size-dependence', c, base, got)
                    if '\r\n' in text:
                        res.feat('texts_with_crlf')
                    if text.endswith('\r'):
                        res.feat('texts_ending_cr')
                    if r.error is not None:
                        res.feat('rfc_defective')
                    if policy == 'quoted_rfc' and any('\n' in f for rec in r.records for f in rec):
                        res.feat('rfc_multiline_records')
                    if res.evaluations % 50021 < 40 and n >= 3:
                        res.sample({'text': text, 'policy': policy, 'has_header': has_header, 'comment': comment, 'records': r.records, 'compositions': 1 << (n - 1)})
                    res.outcome(repr(base)[:80])


BYTE_SAMPLES = ['é,€\n', '\U0001F600"x"\r\n', '﻿a,b\r\nc', '"é\r\n€",z\n', 'é\r', '\r\n\r\né', 'ж#\n#ж\n', '"\U0001F600""\r"\n', '﻿#é\n€', 'a é\r\nж  b', 'x\ufffd,\ufffd\n']


def run_byte_shard(sh, res):
    rc, eng = tree.csvmod(), tree.engine()
    sample = sh['sample']
    data = sample.encode('utf-8')
    for encoding in ('utf-8', 'latin-1'):
        text = data.decode(encoding)
        # the reader's TextIOWrapper works in universal-newlines mode: CR and CRLF reach the reader as LF
        bom_char = '﻿' if encoding == 'utf-8' else '\xef\xbb\xbf'
        for policy, dlm in POLICIES:
            for has_header in (False, True):
                for comment in (None, '#'):
                    base = read_all(rc, eng, io.BytesIO(data), encoding, dlm, policy, has_header, comment, 1024)
                    res.evaluations += 1
                    r = ref_expect(text, dlm, policy, has_header, comment, bom_char)
                    why = compare_with_ref(base, r, has_header)
                    res.traces += 1
                    case = {'kind': 'bytes', 'hex': data.hex(), 'encoding': encoding, 'policy': policy, 'dlm': dlm, 'has_header': has_header, 'comment': comment}
                    if why:
                        res.violation('reader-vs-reference', case, r.key(), base, why)
                    if r.bom:
                        res.feat('bom_cases')
                    res.states += 1 << len(data)
                    for cs in sh['chunk_sizes']:
                        for pieces in compositions(data):
                            st = PieceBytes(pieces)
                            got = read_all(rc, eng, st, encoding, dlm, policy, has_header, comment, cs)
                            res.evaluations += 1
                            res.transitions += st.calls
                            res.nontrivial += 1
                            res.feat('byte_level_executions')
                            if got != base:
                                c = dict(case); c['pieces'] = [p.hex() for p in pieces]; c['chunk_size'] = cs
                                res.violation('chunk-dependence-bytes', c, base, got)
                    res.outcome(repr(base)[:80])
    res.sample({'bytes': data.hex(), 'text': sample, 'compositions': 1 << (len(data) - 1)})


def run_bom_shard(sh, res):
    """every text up to the bound over {BOM, o, quote, comma, LF, #} as UTF-8 bytes: only a BOM that starts the input is a BOM (dropped with a warning); one after a
    comment line, inside the first record's continuation lines or anywhere else is data. Whole read against the reference, every chunk size, every 2-piece byte delivery."""
    rc, eng = tree.csvmod(), tree.engine()
    syms = sh['syms']
    policy, dlm = sh['policy'], sh['dlm']
    for n in range(1, sh['maxlen'] + 1):
        for tup in itertools.product(syms, repeat=n):
            text = ''.join(tup)
            if '\ufeff' not in text:
                continue
            data = text.encode('utf-8')
            for has_header in (False, True):
                for comment in (None, '#'):
                    base = read_all(rc, eng, io.BytesIO(data), 'utf-8', dlm, policy, has_header, comment, 1024)
                    r = ref_expect(text, dlm, policy, has_header, comment, '\ufeff')
                    why = compare_with_ref(base, r, has_header)
                    res.evaluations += 1
                    res.traces += 1
                    res.states += 1
                    case = {'kind': 'bytes', 'hex': data.hex(), 'encoding': 'utf-8', 'policy': policy, 'dlm': dlm, 'has_header': has_header, 'comment': comment}
                    if why:
                        res.violation('reader-vs-reference', case, r.key(), base, why)
                    res.feat('bom_texts_leading' if text.startswith('\ufeff') else 'bom_texts_not_leading')
                    if not text.startswith('\ufeff'):
                        res.nontrivial += 1
                    for cs in range(1, n + 2):
                        got = read_all(rc, eng, io.BytesIO(data), 'utf-8', dlm, policy, has_header, comment, cs)
                        res.evaluations += 1
                        res.transitions += 1
                        if got != base:
                            c = dict(case); c['chunk_size'] = cs
                            res.violation('chunk-size-dependence', c, base, got)
                    for cut in range(1, len(data)):
                        st = PieceBytes([data[:cut], data[cut:]])
                        got = read_all(rc, eng, st, 'utf-8', dlm, policy, has_header, comment, 1024)
                        res.evaluations += 1
                        res.transitions += st.calls
                        if got != base:
                            c = dict(case); c['pieces'] = [data[:cut].hex(), data[cut:].hex()]
                            res.violation('chunk-dependence-bytes', c, base, got)
    res.sample({'bom_alphabet': [repr(x) for x in syms], 'policy': policy})


MEDIUM_TEXTS = [
    'id,name\r\n1,"Doe, John"\r\n2,"multi\r\nline",x\r\n#c\r\n3,end',
    '"a""b",c\n\n#x\r"q\n\nr",z\r\rlast"',
    'a b  c\n  d e\r\n#skip\n f \r',
    '\ufeffk1,k2\n"v\r1",v2\n"unterminated,\nline\n',
]


def run_medium_shard(sh, res):
    """scale probe: texts of 30-50 characters (several records, CRLF, comments, multi-line fields) under every delivery with at most 2 cuts
    (deviation-bounded: one piece is the default, each cut is one deviation) and every chunk size"""
    from vf.envs import compositions_bounded
    rc, eng = tree.csvmod(), tree.engine()
    text = sh['text']
    for policy, dlm in POLICIES:
        for has_header in (False, True):
            for comment in (None, '#'):
                base = read_all(rc, eng, PieceText([text]), None, dlm, policy, has_header, comment, 1024)
                r = ref_expect(text, dlm, policy, has_header, comment, None)
                why = compare_with_ref(base, r, has_header)
                res.evaluations += 1
                res.traces += 1
                case = {'kind': 'text', 'text': text, 'policy': policy, 'dlm': dlm, 'has_header': has_header, 'comment': comment}
                if why:
                    res.violation('reader-vs-reference', case, r.key(), base, why)
                for pieces in compositions_bounded(text, sh['maxcuts']):
                    st = PieceText(pieces)
                    got = read_all(rc, eng, st, None, dlm, policy, has_header, comment, 1024)
                    res.evaluations += 1
                    res.transitions += st.calls
                    res.states += 1
                    res.nontrivial += 1
                    res.feat('medium_text_executions')
                    if got != base:
                        c = dict(case); c['pieces'] = pieces
                        res.violation('chunk-dependence', c, base, got)
                for cs in range(1, len(text) + 2):
                    got = read_all(rc, eng, PieceText([text]), None, dlm, policy, has_header, comment, cs)
                    res.evaluations += 1
                    if got != base:
                        c = dict(case); c['chunk_size'] = cs
                        res.violation('chunk-size-dependence', c, base, got)
    res.sample({'medium_text': text, 'max_cuts': sh['maxcuts']})


def run_long_shard(sh, res):
    """scale dimension: physical lines far longer than any chunk (and than the interpreter's recursion limit in reads): the number of read() calls
    a single line spans must not matter either"""
    rc, eng = tree.csvmod(), tree.engine()
    L = sh['length']
    body = ('ab,"c d",' * (L // 9 + 1))[:L]
    texts = [body, body + '\n' + 'x,y', 'p,q\r\n' + body + '\r\n', '"' + body.replace('"', 'z') + '\n' + 'tail",w\n']
    for text in texts:
        for policy, dlm in (('quoted', ','), ('quoted_rfc', ','), ('simple', ',')):
            base = read_all(rc, eng, PieceText([text]), None, dlm, policy, False, None, 1 << 20)
            res.evaluations += 1
            for cs in sh['chunk_sizes']:
                st = PieceText([text])
                got = read_all(rc, eng, st, None, dlm, policy, False, None, cs)
                res.evaluations += 1
                res.traces += 1
                res.transitions += st.calls
                res.states += st.calls
                res.nontrivial += 1
                res.feat('long_line_executions')
                if got != base:
                    res.violation('chunk-size-dependence-long-line', {'kind': 'long', 'length': len(text), 'policy': policy, 'chunk_size': cs, 'head': text[:30]},
                                  {'n_records': len(base[1] or []), 'error': base[3]}, {'n_records': len(got[1] or []), 'error': got[3]})
            for piece in sh['piece_sizes']:
                pieces = [text[i:i + piece] for i in range(0, len(text), piece)]
                st = PieceText(pieces)
                got = read_all(rc, eng, st, None, dlm, policy, False, None, 1024)
                res.evaluations += 1
                res.transitions += st.calls
                if got != base:
                    res.violation('chunk-dependence-long-line', {'kind': 'long', 'length': len(text), 'policy': policy, 'piece_size': piece, 'head': text[:30]},
                                  {'n_records': len(base[1] or []), 'error': base[3]}, {'n_records': len(got[1] or []), 'error': got[3]})
            # byte level through the reader's own TextIOWrapper
            data = text.encode('utf-8')
            b0 = read_all(rc, eng, io.BytesIO(data), 'utf-8', dlm, policy, False, None, 1 << 20)
            for cs in sh['chunk_sizes']:
                got = read_all(rc, eng, io.BytesIO(data), 'utf-8', dlm, policy, False, None, cs)
                res.evaluations += 1
                if got != b0:
                    res.violation('chunk-size-dependence-long-line', {'kind': 'long-bytes', 'length': len(text), 'policy': policy, 'chunk_size': cs}, {'n_records': len(b0[1] or []), 'error': b0[3]}, {'n_records': len(got[1] or []), 'error': got[3]})
    res.sample({'long_line_length': L, 'chunk_sizes': sh['chunk_sizes']})


def run_shard(sh):
    if sh.get('child_env') is not None:
        # the same exploration in a fresh interpreter under another process environment: what is read depends on the content and the encoding ARGUMENT, not on the locale
        return core.run_shard_in_child('vf.checks.c12', sh, sh['child_env'], sh.get('child_unset', ()))
    res = core.Result()
    if sh['kind'] == 'medium':
        run_medium_shard(sh, res)
    elif sh['kind'] == 'long':
        run_long_shard(sh, res)
    elif sh['kind'] == 'text':
        run_text_shard(sh, res)
    elif sh['kind'] == 'bom':
        run_bom_shard(sh, res)
    else:
        run_byte_shard(sh, res)
    return res


def build(tier, seed):
    o = alphabet.ordinary(seed, 1)[0]
    syms = [o, '"', ',', '\n', '\r', '#', ' ']
    shards = []
    full = 6 if tier == 'thorough' else 5
    for policy, dlm in POLICIES:
        s2 = syms
        for first in syms:
            shards.append({'kind': 'text', 'policy': policy, 'dlm': dlm, 'syms': s2, 'first': first, 'minlen': 1, 'maxlen': full})
        shards.append({'kind': 'text', 'policy': policy, 'dlm': dlm, 'syms': s2, 'first': None, 'minlen': 0, 'maxlen': 0})
    if tier == 'thorough':
        # length 7 for the policies where line assembly differs, reduced alphabet (space dropped) to stay exhaustive
        s7 = [o, '"', ',', '\n', '\r', '#']
        for policy, dlm in POLICIES[:3]:
            for first in s7:
                for second in s7:
                    shards.append({'kind': 'text', 'policy': policy, 'dlm': dlm, 'syms': s7, 'first': first + second, 'minlen': 7, 'maxlen': 7})
    for policy, dlm in POLICIES:
        shards.append({'kind': 'bom', 'policy': policy, 'dlm': dlm, 'syms': ['\ufeff', o, '"', ',' if policy != 'whitespace' else ' ', '\n', '#'], 'maxlen': 5 if tier == 'thorough' else 4})
    for s in BYTE_SAMPLES:
        shards.append({'kind': 'bytes', 'sample': s, 'chunk_sizes': [1, 2, 1024] if tier == 'thorough' else [1, 1024]})
    hostile = [({'LC_ALL': 'C', 'PYTHONUTF8': '0', 'PYTHONCOERCECLOCALE': '0'}, ('LANG', 'LC_CTYPE', 'PYTHONIOENCODING')), ({'PYTHONIOENCODING': 'latin-1', 'LC_ALL': 'C.UTF-8'}, ('LANG',)),
               ({'LC_ALL': 'POSIX', 'PYTHONUTF8': '0', 'PYTHONIOENCODING': 'ascii:surrogateescape', 'PYTHONCOERCECLOCALE': '0'}, ('LANG', 'LC_CTYPE'))]
    for s in (BYTE_SAMPLES[:3] + BYTE_SAMPLES[8:10]) if tier != 'thorough' else BYTE_SAMPLES:
        for envo, unset in hostile:
            shards.append({'kind': 'bytes', 'sample': s, 'chunk_sizes': [1, 1024], 'child_env': envo, 'child_unset': list(unset)})
    for t in MEDIUM_TEXTS:
        shards.append({'kind': 'medium', 'text': t, 'maxcuts': 3 if tier == 'thorough' else 2})
    for L in ([1100, 2500, 70000] if tier == 'thorough' else [1100, 2500]):
        shards.append({'kind': 'long', 'length': L, 'chunk_sizes': [1, 2, 7, 64, 1023], 'piece_sizes': [1, 3, 1000]})
    return shards


def main(tier, seed):
    t0 = time.time()
    shards = build(tier, seed)
    # biggest first
    shards.sort(key=lambda s: -(s.get('maxlen', 9) if s['kind'] not in ('long', 'medium') else 99))
    res = core.run_shards('vf.checks.c12', shards)
    return core.finish(PID, tier, seed, res, t0,
        rule='all texts up to the bound over {o, quote, comma, LF, CR, #, space} x all 2^(n-1) compositions of the delivery x chunk sizes 1..n+1 x 5 policies x comment '
             'prefix x header; byte level: all compositions of the UTF-8 samples x {utf-8, latin-1}, five of them again in child interpreters under three hostile process environments (ASCII-only C / POSIX locale without UTF-8 mode, PYTHONIOENCODING=latin-1); every text up to 4-5 characters over {BOM, o, quote, delimiter, LF, #} containing a BOM at any position (whole read, chunk sizes, 2-piece byte deliveries); states = delivery-tree nodes (2^n per text and configuration), '
             'transitions = read() calls answered; non-trivial = multi-piece delivery of a text containing CR or a quote',
        assumptions=['the reader only talks to its stream through read(k): every answer sequence a stream can give is a composition of the content (requests smaller than a piece split it)',
                     'under an encoding the reader wraps the raw stream in its own TextIOWrapper (universal newlines), so compositions exercise the incremental decoder and newline translation',
                     'field-count warning numbers are compared for header-less input only'],
        extra={'bounds': {'text_maxlen': 6 if tier == 'thorough' else 5, 'len7_slice': tier == 'thorough', 'byte_samples': BYTE_SAMPLES}},
        min_features={'texts_with_crlf': 100, 'texts_ending_cr': 100, 'rfc_multiline_records': 50, 'bom_cases': 4, 'child_interpreter_shards': 10, 'bom_texts_not_leading': 2000, 'bom_texts_leading': 500, 'byte_level_executions': 1000, 'long_line_executions': 50})


def replay(rep):
    c = rep['case']
    rc, eng = tree.csvmod(), tree.engine()
    if c['kind'] == 'text':
        base = read_all(rc, eng, PieceText([c['text']]), None, c['dlm'], c['policy'], c['has_header'], c['comment'], 1024)
        if 'pieces' in c:
            got = read_all(rc, eng, PieceText(c['pieces']), None, c['dlm'], c['policy'], c['has_header'], c['comment'], 1024)
        elif 'chunk_size' in c:
            got = read_all(rc, eng, PieceText([c['text']]), None, c['dlm'], c['policy'], c['has_header'], c['comment'], c['chunk_size'])
        else:
            r = ref_expect(c['text'], c['dlm'], c['policy'], c['has_header'], c['comment'], None)
            why = compare_with_ref(base, r, c['has_header'])
            print('whole:', base, 'reference:', r.key(), why)
            return 1 if why else 0
        print('whole:', base, '\nchunked:', got)
        return 0 if got == base else 1
    data = bytes.fromhex(c['hex'])
    base = read_all(rc, eng, io.BytesIO(data), c['encoding'], c['dlm'], c['policy'], c['has_header'], c['comment'], 1024)
    got = read_all(rc, eng, PieceBytes([bytes.fromhex(p) for p in c.get('pieces', [c['hex']])]), c['encoding'], c['dlm'], c['policy'], c['has_header'], c['comment'], c.get('chunk_size', 1024))
    print('whole:', base, '\nchunked:', got)
    return 0 if got == base else 1
