"""C05 - UPDATE emits every record once, changing only assigned fields of matching rows.

Space: assignment lists of 1..2 (quick) / 1..3 (thorough) over targets {a1, a[2], a3, a.name, a["name"]} x right-hand sides
{literal, a2, a1, a1 + a2, NR, NU, b2} (swap and double assignment included) x WHERE x {no join, INNER, LEFT} x with/without SET,
over all tables of the prefix-closed row tree (ragged rows, None cells) plus a de Bruijn table per query.
"""
import os, time, shutil, tempfile, itertools
from vf import core, refql, refcsv, qcheck, alphabet, tree, drive

PID = 'C05'


def space(tier, seed):
    k, m = alphabet.words(seed, 2)
    n1, n2 = alphabet.names(seed, 2)
    F = lambda t, i, *st: ('f', t, i) + tuple(st)
    maxn = 3 if tier == 'thorough' else 2
    rows = [[], [k], [None], [k, m], [m, k + ';' + m], [k, None], [m, k, k + ';' + m], [None, k + ';' + m, m]]
    wheres = [None, ('cmp', '==', F('a', 1), ('lit', k)), ('cmp', '>', ('NR',), ('int', 1))]
    targets = [F('a', 1), F('a', 2, 'a[N]'), F('a', 3)]
    rhs = [('lit', 'Z$&$$'), F('a', 2), F('a', 1), ('cat', F('a', 1), F('a', 2)), ('NR',), ('NU',)]
    groups = []

    def lists(tg, rh, maxn):
        pairs = [(t, r) for t in tg for r in rh]
        for n in range(1, maxn + 1):
            for tup in itertools.product(pairs, repeat=n):
                yield list(tup)
    qs = []
    for al in lists(targets, rhs, 2):
        for w in wheres:
            qs.append(('plain', {'kind': 'update', 'assign': al, 'where': w, 'join': None}))
    if maxn == 3:
        # triples: restricted right-hand sides to stay exhaustive within budget
        for al in lists(targets, [('lit', 'Z'), F('a', 2), ('cat', F('a', 1), F('a', 2)), ('NU',)], 3):
            if len(al) == 3:
                qs.append(('plain', {'kind': 'update', 'assign': al, 'where': wheres[len(qs) % 3], 'join': None}))
    wide_assign = [
        [(F('a', 1), F('a', 6)), (F('a', 6), F('a', 1)), (F('a', 3), ('lit', 'Z')), (F('a', 4), ('NU',))],
        [(F('a', 5), ('cat', F('a', 1), F('a', 2))), (F('a', 4), F('a', 5)), (F('a', 3), F('a', 4)), (F('a', 2), F('a', 3)), (F('a', 1), F('a', 2))],
        [(F('a', i), ('NR',)) for i in (6, 5, 4, 3, 2, 1)],
        [(F('a', 10, 'a[N]'), F('a', 1)), (F('a', 1), F('a', 10)), (F('a', 11), ('lit', 'w'))],
    ]
    for al in wide_assign:
        for w in wheres:
            qs.append(('wide', {'kind': 'update', 'assign': al, 'where': w, 'join': None}))
    ntargets = [('named', 'a', n1, 'attr'), ('named', 'a', n2, 'dq'), ('named', 'a', n2, 'sq'), F('a', 1)]
    nrhs = [('lit', 'Z'), ('named', 'a', n2, 'attr'), ('cat', ('named', 'a', n1, 'attr'), ('named', 'a', n2, 'dq')), ('NU',), F('a', 2)]
    for al in lists(ntargets, nrhs, 2):
        for w in wheres:
            qs.append(('named', {'kind': 'update', 'assign': al, 'where': w, 'join': None}))
    jtargets = [F('a', 1), F('a', 2)]
    jrhs = [F('b', 2), F('a', 1), ('lit', 'Z'), ('NU',), ('bNR',)]
    for al in lists(jtargets, jrhs, 2):
        for w in (None, ('cmp', '==', F('b', 2), ('lit', 'p')), ('like', F('b', 2), 'p%'), ('cmp', '>', ('len', F('b', 2)), ('int', 0)),
                  ('or', ('cmp', '==', F('a', 1), ('lit', k)), ('cmp', '==', F('a', 1), ('lit', m)))):
            for jt in ('INNER JOIN', 'LEFT JOIN'):
                if jt == 'LEFT JOIN' and w is not None and w[0] not in ('cmp', 'or'):
                    continue      # a b-field of an unmatched LEFT JOIN row is None: dereferencing it fails by design
                qs.append(('join', {'kind': 'update', 'assign': al, 'where': w, 'join': {'type': jt, 'keys': [(F('a', 1), F('b', 1))]}}))
    # the join partner is an EMPTY record (B contains []), found through NR == bNR: it is a partner all the same (the row is updated, NU counts it)
    for al in ([(F('a', 1), ('lit', 'Z'))], [(F('a', 2), ('NU',))], [(F('a', 1), F('b', 2)), (F('a', 2), ('bNR',))]):
        for jt in ('INNER JOIN', 'LEFT JOIN'):
            qs.append(('join_empty_partner', {'kind': 'update', 'assign': al, 'where': None, 'join': {'type': jt, 'keys': [(('NR',), ('bNR',))]}}))
    for al in ([(F('a', 3), F('b', 3))], [(F('a', 1), ('lit', 'Z'))], [(F('a', 3), ('NU',))]):
        for jt in ('INNER JOIN', 'LEFT JOIN'):
            for keys in ([(F('a', 1), F('b', 1)), (F('a', 2), F('b', 2))], [(('NR',), F('b', 1)), (F('a', 2), F('b', 2))]):
                qs.append(('join_two_keys', {'kind': 'update', 'assign': al, 'where': None, 'join': {'type': jt, 'keys': keys}}))
    nrows = [[k, m], [m, k], [k, None]]
    jrows = [[k], [m], [k, m], [m, k + ';' + m], []]
    Bs = [[], [[k, 'p']], [[k, 'p'], [k, 'q'], [m]], [[m, 'p', 'z'], [k]]]
    return dict(qs=qs, rows=rows, nrows=nrows, jrows=jrows, Bs=Bs, names=[n1, n2])


def diagnose(q, A, B, exp, got, why):
    return 'update-mismatch'


def diagnose_js(q, A, B, exp, got, why):
    if why.startswith("caller's input array modified"):
        return 'F4:js-update-mutates-caller-rows'
    return 'update-mismatch'

HEADER_MODES = [(True, '', True), (False, ' WITH (header)', True), (False, ' with (headers)', True), (False, ' With(header)', True),
                (True, ' WITH (noheader)', False), (True, ' with (noheaders)', False), (False, '', False), (True, ' with (header)', True), (False, ' WITH (noheaders)', False)]


def part_csv(sh, res):
    """UPDATE through the CSV front-ends (rbql-py query_csv, rbql-js query_csv in stream and bulk mode): the header line is never updated, never counted by NR and is copied
    to the output; which line is the header follows the caller flag unless a WITH modifier (4 spellings) overrides it"""
    rb = tree.load()
    sp_ = space(sh['tier'], sh['seed'])
    names = sp_['names']
    rowsC = [[r[0], r[1]] for r in sp_['nrows'] if None not in r] + [[sp_['names'][0], sp_['names'][1]], ['', 'x,"y']]
    tabs = list(qcheck.tables_upto(rowsC, 2)) + [rowsC]
    # ragged files: with a header the CSV writer insists on the header's width, so the first record of another width fails the query there (a query-execution error naming it)
    tabs += [[rowsC[0], [rowsC[1][0]]], [[rowsC[0][0]], rowsC[1]], [rowsC[0], rowsC[1], [rowsC[0][0], 'x', 'extra'], rowsC[0]], [rowsC[0], rowsC[1], rowsC[0], [rowsC[1][0]]]]
    base = '/dev/shm' if os.path.isdir('/dev/shm') else tempfile.gettempdir()
    scratch = tempfile.mkdtemp(prefix='vfc05.', dir=base)
    st = lambda recs: [['' if v is None else str(v) for v in r] for r in recs]
    jsbatch, jsmeta = [], []
    try:
        qs = [(kind, q) for kind, q in sp_['qs'] if kind == 'named' or (kind == 'plain' and not any(t[2] == 3 for t, _ in q['assign']))]
        qs = qs[sh['lo']::sh['step']]
        fi = 0
        for kind, q in qs:
            text = refql.render(q, 'py')
            textjs = refql.render(q, 'js')
            for flag, mod, eff in HEADER_MODES:
                if kind == 'named' and not eff:
                    continue
                for A in tabs:
                    if eff:
                        exp = refql.evaluate(q, A, None, names, None)
                        expn = refql.evaluate_neutral(q, A, None, names, None)
                        want = lambda e: [names] + st(e.records)
                        if any(len(r) != len(names) for r in A):
                            bad = min(i for i, r in enumerate(A) if len(r) != len(names)) + 1
                            def widen(e):
                                if e is not None and (e.error is None or (e.error[1] or 10 ** 9) > bad) and all(len(r) == len(a) for r, a in zip(e.records or [], A)):
                                    return refql.Outcome(error=('runtime', bad))
                                return e
                            if exp.error is None and not all(len(r) == len(a) for r, a in zip(exp.records, A)):
                                continue      # an assignment widened a short record: which record first has another width is not what this slice is about
                            exp, expn = widen(exp), widen(expn)
                            res.feat('csv_update_ragged_with_header')
                    else:
                        exp = refql.evaluate(q, [names] + A, None, None, None)
                        expn = refql.evaluate_neutral(q, [names] + A, None, None, None)
                        want = lambda e: st(e.records)
                    fi += 1
                    p1, po = os.path.join(scratch, 'i%d.csv' % fi), os.path.join(scratch, 'o.csv')
                    with open(p1, 'w', newline='', encoding='utf-8') as f:
                        f.write(refcsv.ref_write([names] + A, ',', 'quoted'))
                    err, recs = None, None
                    try:
                        with core.watchdog(10):
                            rb.query_csv(text + mod, p1, ',', 'quoted', po, ',', 'quoted', 'utf-8', [], flag)
                        with open(po, newline='', encoding='utf-8') as f:
                            recs = refcsv.ref_read(f.read(), ',', 'quoted').records
                    except BaseException as e:
                        if isinstance(e, (KeyboardInterrupt, SystemExit)):
                            raise
                        err = drive.classify_py(e)
                    res.evaluations += 1
                    res.traces += 1
                    res.states += 1
                    case = {'front_end': 'query_csv', 'query': text + mod, 'caller_header_flag': flag, 'file_lines': [names] + A}
                    if exp.error is not None:
                        if err is None or err[0] != exp.error[0]:
                            res.violation('csv-update-mismatch', case, {'error': exp.error}, {'records': recs, 'error': err})
                        else:
                            res.feat('csv_update_error_cases')
                    elif err is not None or recs != want(exp):
                        res.violation('csv-update-mismatch', case, {'records': want(exp)}, {'records': recs, 'error': err})
                    else:
                        res.feat('csv_update_cases')
                        if flag != eff:
                            res.feat('csv_update_modifier_overrides_flag')
                        if A and want(exp) != [names] + A:
                            res.nontrivial += 1
                    if expn is not None and fi % 2 == 0:
                        for bulk in (False, True):
                            jsbatch.append({'op': 'query_csv', 'query': textjs + mod, 'input_path': p1, 'out_path': os.path.join(scratch, 'jo%d_%d.csv' % (fi, int(bulk))), 'dlm': ',', 'policy': 'quoted', 'with_headers': flag, 'bulk': bulk})       # an output file of its own: a failed query may leave its stream open
                            jsmeta.append((expn, want(expn) if expn.error is None else None, {'front_end': 'rbql-js query_csv', 'bulk': bulk, 'query': textjs + mod, 'caller_header_flag': flag, 'file_lines': [names] + A}))
                    else:
                        os.unlink(p1)
        from vf import js
        if js.available() and jsbatch:
            outs = js.run_batch(jsbatch)
            for (expn, wanted, case), o in zip(jsmeta, outs):
                res.evaluations += 1
                res.traces += 1
                if expn.error is not None:
                    if 'error' not in o or drive.classify_js(o['error'])[0] != expn.error[0]:
                        res.violation('js:csv-update-mismatch', case, {'error': expn.error}, o)
                    else:
                        res.feat('js_csv_update_error_cases')
                    continue
                got = refcsv.ref_read(o.get('output') or '', ',', 'quoted').records if 'error' not in o else None
                if got != wanted:
                    res.violation('js:csv-update-mismatch', case, {'records': wanted}, o)
                else:
                    res.feat('js_csv_update_cases')
        res.sample({'csv_update': [q_[1]['assign'] for q_ in qs[:1]], 'header_modes': [m[1] or ('flag=%s' % m[0]) for m in HEADER_MODES]})
    finally:
        shutil.rmtree(scratch, ignore_errors=True)


def tables_and_Bs(sp_, maxrows):
    """the A tables and B tables of every query kind of space() - shared with C06 and C19, which re-use this query space"""
    w6 = [['c%d' % i for i in range(1, 7)], ['d%d' % i for i in range(1, 7)], ['e%d' % i for i in range(1, 12)], ['f%d' % i for i in range(1, 6)]]
    tabs = {'wide': list(qcheck.tables_upto(w6, 2)) + [w6 * 3],
            'plain': list(qcheck.tables_upto(sp_['rows'], maxrows)) + [qcheck.long_table(sp_['rows'], 2)],
            'named': list(qcheck.tables_upto(sp_['nrows'], maxrows + 1)) + [qcheck.long_table(sp_['nrows'], 3)],
            'join': list(qcheck.tables_upto(sp_['jrows'], maxrows)) + [qcheck.long_table(sp_['jrows'][:4], 2)]}
    tabs['join_empty_partner'] = [T for T in qcheck.tables_upto([[sp_['names'][0] + 'v', 'w'], ['x', 'y']], 3)]
    # a header over ragged records: the first record fits the name list, later ones are shorter / longer
    first = [r for r in sp_['nrows'] if None not in r][0]
    tabs['named'] += [[list(first)] + T for T in qcheck.tables_upto([[first[0]], [], [first[1], first[0], 'extra']], 2) if T]
    # two-part keys whose parts collide once glued together as text ('x|y' + 'z' vs 'x' + 'y|z'), '' vs None, the number 1 vs the text '1'
    tabs['join_two_keys'] = list(qcheck.tables_upto([['x|y', 'z', '.'], ['x', 'y|z', '.'], ['x', '', '.'], ['1', 'x', '.'], ['x,y', 'z', '.']], 2))
    Bsets = {'join': sp_['Bs'], 'join_empty_partner': [[[]], [[], ['q', 'p']], [['q', 'p'], []], [[], []]],
             'join_two_keys': [[['x', 'y|z', 'P']], [['x|y', 'z', 'Q'], ['x', None, 'R']], [['1', 'x', 'S'], ['x', '', 'T']], [['x', 'y,z', 'U'], ['x,y', 'z', 'V']]]}
    return tabs, Bsets


def run_shard(sh):
    if sh.get('part') == 'csv':
        res = core.Result()
        part_csv(sh, res)
        return res
    res = core.Result()
    sp_ = space(sh['tier'], sh['seed'])
    maxrows = 3 if sh['tier'] == 'thorough' else 2
    tabs, Bsets = tables_and_Bs(sp_, maxrows)
    jscases = []
    for qi, (kind, q) in enumerate(sp_['qs'][sh['lo']:sh['hi']]):
        sp = refql.Spelling(update_set=(qi % 2 == 0))
        if qi % 5 == 4:
            sp = refql.Spelling(update_set=(qi % 2 == 0), list_sep=',      ', assign_eq='     =     ', inner_space='    ')     # runs of 4+ spaces around assignments
        text = refql.render(q, 'py', sp)
        Blist = Bsets.get(kind, [None])
        # named slice: the same query text is run against both column orders of the header (a stale name -> position binding shows)
        for names in ([sp_['names'], sp_['names'][::-1]] if kind == 'named' else [None]):
          for B in Blist:
            for A in tabs[kind]:
                exp, got, why = qcheck.run_case(res, q, A, B, a_names=names, diagnose=diagnose, text=text)
                jscases.append((q, A, B, names, None))
                res.states += 1
                res.transitions += 1 if A else 0
                if why is None:
                    if exp.error is None:
                        changed = sum(1 for x, y in zip(A, exp.records) if x != y)
                        if 0 < changed:
                            res.nontrivial += 1
                        if 0 < changed < len(A):
                            res.feat('some_rows_unchanged')
                        if exp.alts:
                            res.feat('left_join_unmatched_rows')
                    else:
                        res.feat('ref_error_cases')
                        if exp.error[1] and exp.error[1] > 1:
                            res.feat('error_after_first_record')
                res.outcome(repr((exp.records, exp.error))[:60])
        if qi % 97 == 3:
            res.sample({'query': text, 'tables': len(tabs[kind]) * len(Blist)})
    qcheck.run_js_cases(res, jscases, diagnose_js)
    return res


def main(tier, seed):
    t0 = time.time()
    sp_ = space(tier, seed)
    shards = [{'tier': tier, 'seed': seed, 'lo': lo, 'hi': hi} for lo, hi in core.chunks(len(sp_['qs']), 128)]
    shards += [{'part': 'csv', 'tier': tier, 'seed': seed, 'lo': i, 'step': 16 if tier == 'thorough' else 48} for i in range(16)]
    res = core.run_shards('vf.checks.c05', shards)
    return core.finish(PID, tier, seed, res, t0,
        rule='all assignment lists up to the bound (targets aN / a[N] / a.name / a["name"] / a[\'name\'] incl. a field missing in short rows; right-hand sides literal, fields, concatenation, NR, NU, b2, bNR) '
             'x WHERE x {none, INNER, LEFT JOIN} x with/without SET x all tables of the prefix-closed row tree + a de Bruijn table; the named and two-column queries also through rbql-py / rbql-js query_csv on files x 9 header modes (caller flag x WITH spellings); non-trivial = at least one row actually changes',
        assumptions=['RefQL is the statement of the semantics', 'UPDATE + LEFT JOIN on an unmatched row: both "unchanged" (C05 wording) and "updated against an all-None partner" (C04 wording) are accepted'],
        extra={'queries': len(sp_['qs'])},
        min_features={'some_rows_unchanged': 100, 'ref_error_cases': 100, 'error_after_first_record': 20, 'left_join_unmatched_rows': 20, 'csv_update_ragged_with_header': 500, 'csv_update_cases': 20000, 'csv_update_modifier_overrides_flag': 10000, 'js_csv_update_cases': 20000})


def replay(rep):
    return qcheck.replay_case(rep)
