"""C05 - UPDATE emits every record once, changing only assigned fields of matching rows.

Space: assignment lists of 1..2 (quick) / 1..3 (thorough) over targets {a1, a[2], a3, a.name, a["name"]} x right-hand sides
{literal, a2, a1, a1 + a2, NR, NU, b2} (swap and double assignment included) x WHERE x {no join, INNER, LEFT} x with/without SET,
over all tables of the prefix-closed row tree (ragged rows, None cells) plus a de Bruijn table per query.
"""
import time, itertools
from vf import core, refql, qcheck, alphabet

PID = 'C05'


def space(tier, seed):
    k, m = alphabet.words(seed, 2)
    n1, n2 = alphabet.names(seed, 2)
    F = lambda t, i, *st: ('f', t, i) + tuple(st)
    maxn = 3 if tier == 'thorough' else 2
    rows = [[], [k], [None], [k, m], [m, k + ';' + m], [k, None], [m, k, k + ';' + m], [None, k + ';' + m, m]]
    wheres = [None, ('cmp', '==', F('a', 1), ('lit', k)), ('cmp', '>', ('NR',), ('int', 1))]
    targets = [F('a', 1), F('a', 2, 'a[N]'), F('a', 3)]
    rhs = [('lit', 'Z$&$$'), F('a', 2), F('a', 1), ('cat', F('a', 1), F('a', 2)), ('NR',), ('NU',)]
    groups = []

    def lists(tg, rh, maxn):
        pairs = [(t, r) for t in tg for r in rh]
        for n in range(1, maxn + 1):
            for tup in itertools.product(pairs, repeat=n):
                yield list(tup)
    qs = []
    for al in lists(targets, rhs, 2):
        for w in wheres:
            qs.append(('plain', {'kind': 'update', 'assign': al, 'where': w, 'join': None}))
    if maxn == 3:
        # triples: restricted right-hand sides to stay exhaustive within budget
        for al in lists(targets, [('lit', 'Z'), F('a', 2), ('cat', F('a', 1), F('a', 2)), ('NU',)], 3):
            if len(al) == 3:
                qs.append(('plain', {'kind': 'update', 'assign': al, 'where': wheres[len(qs) % 3], 'join': None}))
    wide_assign = [
        [(F('a', 1), F('a', 6)), (F('a', 6), F('a', 1)), (F('a', 3), ('lit', 'Z')), (F('a', 4), ('NU',))],
        [(F('a', 5), ('cat', F('a', 1), F('a', 2))), (F('a', 4), F('a', 5)), (F('a', 3), F('a', 4)), (F('a', 2), F('a', 3)), (F('a', 1), F('a', 2))],
        [(F('a', i), ('NR',)) for i in (6, 5, 4, 3, 2, 1)],
        [(F('a', 10, 'a[N]'), F('a', 1)), (F('a', 1), F('a', 10)), (F('a', 11), ('lit', 'w'))],
    ]
    for al in wide_assign:
        for w in wheres:
            qs.append(('wide', {'kind': 'update', 'assign': al, 'where': w, 'join': None}))
    ntargets = [('named', 'a', n1, 'attr'), ('named', 'a', n2, 'dq'), ('named', 'a', n2, 'sq'), F('a', 1)]
    nrhs = [('lit', 'Z'), ('named', 'a', n2, 'attr'), ('cat', ('named', 'a', n1, 'attr'), ('named', 'a', n2, 'dq')), ('NU',), F('a', 2)]
    for al in lists(ntargets, nrhs, 2):
        for w in wheres:
            qs.append(('named', {'kind': 'update', 'assign': al, 'where': w, 'join': None}))
    jtargets = [F('a', 1), F('a', 2)]
    jrhs = [F('b', 2), F('a', 1), ('lit', 'Z'), ('NU',), ('bNR',)]
    for al in lists(jtargets, jrhs, 2):
        for w in (None, ('cmp', '==', F('b', 2), ('lit', 'p')), ('like', F('b', 2), 'p%'), ('cmp', '>', ('len', F('b', 2)), ('int', 0)),
                  ('or', ('cmp', '==', F('a', 1), ('lit', k)), ('cmp', '==', F('a', 1), ('lit', m)))):
            for jt in ('INNER JOIN', 'LEFT JOIN'):
                if jt == 'LEFT JOIN' and w is not None and w[0] not in ('cmp', 'or'):
                    continue      # a b-field of an unmatched LEFT JOIN row is None: dereferencing it fails by design
                qs.append(('join', {'kind': 'update', 'assign': al, 'where': w, 'join': {'type': jt, 'keys': [(F('a', 1), F('b', 1))]}}))
    nrows = [[k, m], [m, k], [k, None]]
    jrows = [[k], [m], [k, m], [m, k + ';' + m], []]
    Bs = [[], [[k, 'p']], [[k, 'p'], [k, 'q'], [m]], [[m, 'p', 'z'], [k]]]
    return dict(qs=qs, rows=rows, nrows=nrows, jrows=jrows, Bs=Bs, names=[n1, n2])


def diagnose(q, A, B, exp, got, why):
    return 'update-mismatch'


def diagnose_js(q, A, B, exp, got, why):
    if why.startswith("caller's input array modified"):
        return 'F4:js-update-mutates-caller-rows'
    return 'update-mismatch'


def run_shard(sh):
    res = core.Result()
    sp_ = space(sh['tier'], sh['seed'])
    maxrows = 3 if sh['tier'] == 'thorough' else 2
    w6 = [['c%d' % i for i in range(1, 7)], ['d%d' % i for i in range(1, 7)], ['e%d' % i for i in range(1, 12)], ['f%d' % i for i in range(1, 6)]]
    tabs = {'wide': list(qcheck.tables_upto(w6, 2)) + [w6 * 3],
            'plain': list(qcheck.tables_upto(sp_['rows'], maxrows)) + [qcheck.long_table(sp_['rows'], 2)],
            'named': list(qcheck.tables_upto(sp_['nrows'], maxrows + 1)) + [qcheck.long_table(sp_['nrows'], 3)],
            'join': list(qcheck.tables_upto(sp_['jrows'], maxrows)) + [qcheck.long_table(sp_['jrows'][:4], 2)]}
    jscases = []
    for qi, (kind, q) in enumerate(sp_['qs'][sh['lo']:sh['hi']]):
        sp = refql.Spelling(update_set=(qi % 2 == 0))
        if qi % 5 == 4:
            sp = refql.Spelling(update_set=(qi % 2 == 0), list_sep=',      ', assign_eq='     =     ', inner_space='    ')     # runs of 4+ spaces around assignments
        text = refql.render(q, 'py', sp)
        Blist = sp_['Bs'] if kind == 'join' else [None]
        # named slice: the same query text is run against both column orders of the header (a stale name -> position binding shows)
        for names in ([sp_['names'], sp_['names'][::-1]] if kind == 'named' else [None]):
          for B in Blist:
            for A in tabs[kind]:
                exp, got, why = qcheck.run_case(res, q, A, B, a_names=names, diagnose=diagnose, text=text)
                jscases.append((q, A, B, names, None))
                res.states += 1
                res.transitions += 1 if A else 0
                if why is None:
                    if exp.error is None:
                        changed = sum(1 for x, y in zip(A, exp.records) if x != y)
                        if 0 < changed:
                            res.nontrivial += 1
                        if 0 < changed < len(A):
                            res.feat('some_rows_unchanged')
                        if exp.alts:
                            res.feat('left_join_unmatched_rows')
                    else:
                        res.feat('ref_error_cases')
                        if exp.error[1] and exp.error[1] > 1:
                            res.feat('error_after_first_record')
                res.outcome(repr((exp.records, exp.error))[:60])
        if qi % 97 == 3:
            res.sample({'query': text, 'tables': len(tabs[kind]) * len(Blist)})
    qcheck.run_js_cases(res, jscases, diagnose_js)
    return res


def main(tier, seed):
    t0 = time.time()
    sp_ = space(tier, seed)
    shards = [{'tier': tier, 'seed': seed, 'lo': lo, 'hi': hi} for lo, hi in core.chunks(len(sp_['qs']), 128)]
    res = core.run_shards('vf.checks.c05', shards)
    return core.finish(PID, tier, seed, res, t0,
        rule='all assignment lists up to the bound (targets aN / a[N] / a.name / a["name"] / a[\'name\'] incl. a field missing in short rows; right-hand sides literal, fields, concatenation, NR, NU, b2, bNR) '
             'x WHERE x {none, INNER, LEFT JOIN} x with/without SET x all tables of the prefix-closed row tree + a de Bruijn table; non-trivial = at least one row actually changes',
        assumptions=['RefQL is the statement of the semantics', 'UPDATE + LEFT JOIN on an unmatched row: both "unchanged" (C05 wording) and "updated against an all-None partner" (C04 wording) are accepted'],
        extra={'queries': len(sp_['qs'])},
        min_features={'some_rows_unchanged': 100, 'ref_error_cases': 100, 'error_after_first_record': 20, 'left_join_unmatched_rows': 20})


def replay(rep):
    return qcheck.replay_case(rep)
