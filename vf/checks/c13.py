"""C13 - same query, same data => same result through every front-end and backend.

~60 queries whose results contain only strings and ints (fields, concatenation, NR, literals, WHERE, ORDER BY, DISTINCT, TOP/LIMIT incl. empty results, COUNT/GROUP BY,
JOIN, UPDATE, EXCEPT, plus a parse error and a runtime error) x 3 rectangular string tables (cells with commas, quotes, a line break, a tab) x {header, no header} are run through:
query_table; query with TableIterator/TableWriter; query with the checker's own plain iterator / writer / registry classes; query_csv on files; rbql_main.main() in-process
(patched argv / stdio, file and stdin->stdout, out-format input/csv/tsv, explicit policies); real `python -m rbql` subprocesses; query_pandas_dataframe;
SqliteRecordIterator + query_sqlite_to_csv. Oracle: RefQL's table and header after str(); CLI exit status, stdout and stderr conventions.
"""
import io, os, re, sys, time, json, shutil, sqlite3, tempfile, subprocess, itertools
from vf import core, tree, refql, refcsv, qcheck, drive

PID = 'C13'
F = lambda t, i, *st: ('f', t, i) + tuple(st)


def queries():
    S = lambda **kw: dict({'kind': 'select', 'where': None, 'join': None, 'order': None, 'distinct': None, 'top': None, 'group': None}, **kw)
    J = lambda t: {'type': t, 'keys': [(F('a', 1), F('b', 1))]}
    w = ('cmp', '!=', F('a', 1), ('lit', 'm'))
    nomatch = ('cmp', '==', F('a', 1), ('lit', 'nomatch'))
    qs = [
        S(items=[('star', None)]), S(items=[F('a', 2), F('a', 1)]), S(items=[F('a', 1), ('NR',), ('cat', F('a', 2), ('lit', '!'))], where=w),
        S(items=[F('a', 1), F('a', 3)], order={'keys': [F('a', 1), F('a', 3)], 'desc': True}), S(items=[F('a', 1)], distinct='distinct'),
        S(items=[F('a', 1), F('a', 2)], top=('TOP', 2)), S(items=[F('a', 1)], top=('LIMIT', 0)), S(items=[F('a', 1), F('a', 2)], where=nomatch, top=('TOP', 2)),
        S(items=[F('a', 1)], where=nomatch), S(items=[F('a', 1), F('a', 2)], where=nomatch, order={'keys': [F('a', 1)], 'desc': False}, top=('LIMIT', 3)),
        S(items=[F('a', 1), ('agg', 'COUNT', 'U', ('star', None))], group=[F('a', 1)]), S(items=[('agg', 'COUNT', 'U', ('star', None))], where=nomatch),
        S(items=[F('a', 1), F('b', 2)], join=J('JOIN')), S(items=[('star', None)], join=J('INNER JOIN'), where=w), S(items=[F('a', 2), ('bNR',)], join=J('JOIN'), order={'keys': [F('a', 2)], 'desc': False}),
        S(items=[('star', None)], except_cols=[F('a', 2)]), S(items=[('star', None)], except_cols=[F('a', 2)], distinct='count'), S(items=[('star', None)], except_cols=[F('a', 3), F('a', 1)], distinct='distinct', top=('LIMIT', 1)),
        S(items=[F('a', 1), ('agg', 'COUNT', 'U', ('star', None))], group=[F('a', 1)], top=('LIMIT', 1)), S(items=[F('a', 1), ('agg', 'COUNT', 'U', ('star', None))], group=[F('a', 1)], top=('TOP', 2)),
        S(items=[F('a', 1), F('a', 2)], distinct='count', top=('LIMIT', 1)), S(items=[F('a', 1)], order={'keys': [F('a', 1)], 'desc': False}, top=('LIMIT', 1)), S(items=[F('a', 1)], distinct='distinct', top=('TOP', 1)), S(items=[('alias', F('a', 1), 'first', 'AS'), ('alias', ('cat', F('a', 1), F('a', 2)), 'both', 'as')]),
        S(items=[F('a', 1), F('a', 2)], distinct='count'),
        {'kind': 'update', 'assign': [(F('a', 2), ('lit', 'U'))], 'where': w, 'join': None}, {'kind': 'update', 'assign': [(F('a', 1), ('cat', F('a', 1), F('a', 3)))], 'where': None, 'join': None},
        {'kind': 'update', 'assign': [(F('a', 2), F('b', 2))], 'where': None, 'join': J('JOIN')},
        S(items=[('NR',), ('cmp', '==', F('a', 1), ('lit', 'k')), ('cmp', '!=', F('a', 1), ('lit', 'k')), ('tofloat', ('NR',)), ('arith', '-', ('NR',), ('int', 1))]),     # True / 1 / 1.0 and False / 0 in one output: equal as values, different as text
        S(items=[F('a', 1)], where=('raw_parse_error',)),        # replaced by a textual mistake below
        S(items=[('toint', F('a', 1))]),                           # runtime error at record 1
    ]
    named = [S(items=[('named', 'a', 'name', 'attr'), ('named', 'a', 'val', 'dq')], where=('cmp', '!=', ('named', 'a', 'name', 'attr'), ('lit', 'm'))),
             S(items=[('named', 'a', 'name', 'attr'), ('named', 'b', 'jv', 'attr')], join=J('JOIN')),
             {'kind': 'update', 'assign': [(('named', 'a', 'val', 'attr'), ('lit', 'U'))], 'where': None, 'join': None}]
    return qs, named


TABLES = [
    [['k', 'v1', 'x'], ['m', 'v2', 'y'], ['k', 'v1', 'z']],
    [['k', 'a,b', 'q"r'], ['m', ' lead', 'trail '], ['n', '', 'é€']],
    [['k', 'one', 'two']],
    [['k'], [''], ['m'], ['']],                                                                   # one column, empty cells (blank lines in the file)
    [['k', 'v1', 'x'] + ['w%d' % i for i in range(4, 11)] + ['"q"', 'a"b'], ['m', 'v2', 'y'] + ['u%d' % i for i in range(4, 11)] + ['plain', '""']],     # 12 columns
]
SPECIAL = {'nl': [['k', 'l1\nl2', 'x'], ['m', 'plain', 'y']], 'tab': [['k', 'p\tq', 'x'], ['m', 'plain', 'y']], 'latin': [['k', 'caf\xe9', '\xff\xe0'], ['m', 'plain', '\xa0x']]}
B = [['k', 'J1'], ['m', 'J2'], ['k', 'J3']]
NAMES = ['name', 'val', 'third']
BNAMES = ['jk', 'jv']


REG_IDS = [('t', 'b'), ('a', 'B'), ('A', 'j2'), ('People', 'Other'), ('people', 'People'), ('b', 'a'), ('T1', 't1'), ('input.csv', 'join.csv')]


def id_variants(i):
    """table ids a sloppy lookup could confuse with i: other letter case, a proper prefix, an extension"""
    out = []
    for v in (i.lower(), i.upper(), i.swapcase(), i[:1].upper() + i[1:].lower(), i[:-1], i + 'x', 'x' + i):
        if v and v != i and v not in out:
            out.append(v)
    return out


def render(q, join_id='b'):
    if q.get('where') == ('raw_parse_error',):
        return "select a1 where a1 = 'x'"
    return refql.render(q, join_table_id=join_id)


def names_for(A):
    w = len(A[0]) if A else 3
    return (NAMES + ['n%d' % i for i in range(4, w + 1)])[:w]


def expected(q, A, hdr):
    if q.get('where') == ('raw_parse_error',):
        return refql.Outcome(error=('parsing', None))
    return refql.evaluate(q, A, B if q.get('join') else None, names_for(A) if hdr else None, BNAMES if (hdr and q.get('join')) else None)


def strtab(records):
    return [[('' if v is None else str(v)) for v in r] for r in records]


ERRTYPE = {'parsing': 'query parsing', 'runtime': 'query execution', 'io': 'IO handling'}


def judge(res, ep, q, text, A, hdr, exp, got_records, got_header, got_err, extra=None):
    """got_err: None or error class string in RefQL terms ('parsing' / 'runtime' / 'io' / other)"""
    res.evaluations += 1
    res.traces += 1
    res.feat('ep_' + ep)
    case = {'entry_point': ep, 'query': text, 'A': A, 'has_header': hdr}
    if extra:
        case.update(extra)
    if exp.error is not None:
        if got_err != exp.error[0]:
            res.violation('entry-point-disagrees', case, {'error': exp.error[0]}, {'error': got_err, 'records': got_records})
        else:
            res.feat('failing_agree')
        return
    if got_err is not None:
        res.violation('entry-point-disagrees', case, {'records': strtab(exp.records)}, {'error': got_err})
        return
    eh = exp.header
    if strtab(got_records or []) != strtab(exp.records):
        res.violation('entry-point-disagrees', case, {'records': strtab(exp.records), 'header': eh}, {'records': got_records, 'header': got_header})
        return
    if eh is None:
        if got_header:
            res.violation('entry-point-disagrees', case, {'header': None}, {'header': got_header})
            return
    else:
        gh = got_header or []
        if len(gh) != len(eh) or any(x != '<count>' and x != y for x, y in zip(eh, gh)):
            res.violation('entry-point-disagrees', case, {'header': eh}, {'header': got_header})
            return
    res.nontrivial += 1


def err_class(e):
    c = drive.classify_py(e)[0]
    return c


def run_api_entry_points(res, q, A, hdr, exp, scratch):
    rb = tree.load()
    eng = tree.engine()
    text = render(q)
    an = names_for(A) if hdr else None
    bn = BNAMES if hdr else None
    useB = B if q.get('join') else None
    # E1 query_table
    got = drive.run_py(text, qcheck.copy_table(A), qcheck.copy_table(useB), an, bn if useB else None)
    judge(res, 'query_table', q, text, A, hdr, exp, got['records'], got['header'], got['error'][0] if got['error'] else None)
    # E2 query + TableIterator / TableWriter / ListTableRegistry
    out, err = [], None
    w = eng.TableWriter(out)
    try:
        reg = eng.ListTableRegistry([eng.ListTableInfo('b', qcheck.copy_table(B), bn)]) if useB else None
        eng.query(text, eng.TableIterator(qcheck.copy_table(A), an), w, [], reg)
    except Exception as e:
        err = err_class(e)
    judge(res, 'query_TableIterator', q, text, A, hdr, exp, out if err is None else None, w.header, err)
    # E2b registry mode: no fixed input iterator, the input table comes from `FROM <id>` and the join table from `JOIN <id>`, both resolved by exact id in a user ListTableRegistry
    # that also holds case-variant and same-prefix distractor tables (before and after the right one)
    if q.get('where') != ('raw_parse_error',):
        decoyA, decoyB = [['DECOY'] * len(A[0])] * 2 if A else [['DECOY']], [['k', 'DECOY'], ['m', 'DECOY'], ['DECOY', 'DECOY']]
        for in_id, join_id in REG_IDS:
            tr = render(q, join_id) + ' FROM ' + in_id
            for before in (True, False):
                infos = [eng.ListTableInfo(in_id, qcheck.copy_table(A), an)] + ([eng.ListTableInfo(join_id, qcheck.copy_table(B), bn)] if useB else [])
                decoys = [eng.ListTableInfo(v, decoyA, an) for v in id_variants(in_id) if v != join_id] + [eng.ListTableInfo(v, decoyB, bn) for v in id_variants(join_id) if v != in_id and v not in id_variants(in_id)]
                out, err = [], None
                w = eng.TableWriter(out)
                try:
                    eng.query(tr, None, w, [], eng.ListTableRegistry(decoys + infos if before else infos + decoys))
                except Exception as e:
                    err = err_class(e)
                judge(res, 'query_registry_from', q, tr, A, hdr, exp, out if err is None else None, w.header, err, {'input_id': in_id, 'join_id': join_id, 'decoys_first': before, 'decoy_ids': [d.table_id for d in decoys]})
    # E3 the checker's own plain classes

    class MyIt(eng.RBQLInputIterator):
        def __init__(self, table, names, prefix):
            self.rows, self.names, self.prefix, self.i = table, names, prefix, 0

        def get_variables_map(self, query_text):
            m = {}
            eng.parse_basic_variables(query_text, self.prefix, m)
            eng.parse_array_variables(query_text, self.prefix, m)
            if self.names is not None:
                eng.parse_dictionary_variables(query_text, self.prefix, self.names, m)
                eng.parse_attribute_variables(query_text, self.prefix, self.names, 'my header', m)
            return m

        def get_record(self):
            if self.i >= len(self.rows):
                return None
            self.i += 1
            return list(self.rows[self.i - 1])

        def get_header(self):
            return self.names

    class MyW(eng.RBQLOutputWriter):
        def __init__(self):
            self.rows, self.header, self.finished = [], None, 0

        def write(self, fields):
            self.rows.append(fields)
            return True

        def set_header(self, h):
            self.header = h

        def finish(self):
            self.finished += 1

    class MyReg(eng.RBQLTableRegistry):
        def get_iterator_by_table_id(self, table_id, alias):
            return MyIt(B, bn, alias) if table_id == 'b' else None
    mw, err = MyW(), None
    try:
        eng.query(text, MyIt(A, an, 'a'), mw, [], MyReg() if useB else None)
    except Exception as e:
        err = err_class(e)
    judge(res, 'query_custom_classes', q, text, A, hdr, exp, mw.rows if err is None else None, mw.header, err)
    if err is None and mw.finished != 1:
        res.violation('finish-not-called-once', {'entry_point': 'custom', 'query': text}, 1, mw.finished)
    # E7 pandas
    import pandas as pd
    df = pd.DataFrame(A, columns=names_for(A)) if hdr else pd.DataFrame(A)
    jdf = (pd.DataFrame(B, columns=BNAMES) if hdr else pd.DataFrame(B)) if useB else None
    recs, cols, err = None, None, None
    try:
        o = rb.query_pandas_dataframe(text, df, [], jdf)
        if o is None:
            err = 'returned None'
        else:
            recs = [list(r) for r in o.itertuples(index=False)]
            cols = None if isinstance(o.columns, pd.RangeIndex) else [str(c) for c in o.columns]
    except Exception as e:
        err = err_class(e)
    if not (exp.error is None and not exp.records and exp.header is None):
        # an empty, header-less pandas result has no observable columns; everything else is compared
        judge(res, 'pandas', q, text, A, hdr, exp, recs, cols, err)
    # E7b dataframes whose column labels repeat (legal in pandas): positional queries give what query_table gives for the same name list
    if hdr and len(A[0]) >= 2 and not any(isinstance(x, tuple) and x and x[0] == 'named' for it in (q.get('items') or []) for x in refql.walk(it)) and 'named' not in repr(q.get('assign')) and 'named' not in repr(q.get('where')):
        dup = list(an)
        dup[1] = dup[0]
        exp_d = refql.evaluate(q, A, B if q.get('join') else None, dup, BNAMES if q.get('join') else None) if q.get('where') != ('raw_parse_error',) else exp
        got = drive.run_py(text, qcheck.copy_table(A), qcheck.copy_table(useB), dup, bn if useB else None)
        judge(res, 'query_table_duplicate_names', q, text, A, hdr, exp_d, got['records'], got['header'], got['error'][0] if got['error'] else None, {'names': dup})
        recs, cols, err = None, None, None
        try:
            o = rb.query_pandas_dataframe(text, pd.DataFrame(A, columns=dup), [], jdf)
            recs = [list(r) for r in o.itertuples(index=False)]
            cols = None if isinstance(o.columns, pd.RangeIndex) else [str(c) for c in o.columns]
        except Exception as e:
            err = err_class(e)
        if not (exp_d.error is None and not exp_d.records and exp_d.header is None):
            judge(res, 'pandas_duplicate_labels', q, text, A, hdr, exp_d, recs, cols, err, {'labels': dup})
    # E4 query_csv on files + E8 sqlite (header mode only)
    p1, p2, po = [os.path.join(scratch, n) for n in ('t1.csv', 't2.csv', 'out.csv')]
    with open(p1, 'w', newline='', encoding='utf-8') as f:
        f.write(refcsv.ref_write(([names_for(A)] if hdr else []) + A, ',', 'quoted_rfc'))
    with open(p2, 'w', newline='', encoding='utf-8') as f:
        f.write(refcsv.ref_write(([BNAMES] if hdr else []) + B, ',', 'quoted_rfc'))
    tcsv = render(q, 't2.csv')
    err, recs, gh = None, None, None
    try:
        rb.query_csv(tcsv, p1, ',', 'quoted_rfc', po, ',', 'quoted_rfc', 'utf-8', [], hdr)
        with open(po, newline='', encoding='utf-8') as f:
            lines = refcsv.ref_read(f.read(), ',', 'quoted_rfc').records
        if exp.error is None and exp.header is not None:
            gh, recs = (lines[0] if lines else None), lines[1:]
        else:
            recs = lines
    except Exception as e:
        err = err_class(e)
    judge(res, 'query_csv', q, tcsv, A, hdr, exp, recs, gh, err)
    # the same files with comment lines (before the header, between and after the records), read with comment_prefix
    def commented(rows):
        body = refcsv.ref_write(rows, ',', 'quoted_rfc')
        if not all('\n' not in c for r in rows for c in r):
            return None
        lines = body.split('\n')
        if lines and lines[-1] == '':
            lines.pop()          # only the piece after the final line break; an empty line in the middle is a record with one empty field
        return '#c1\n' + ''.join(l + '\n#c\n' for l in lines)
    c1, c2 = commented(([names_for(A)] if hdr else []) + A), commented(([BNAMES] if hdr else []) + B)
    if c1 is not None and c2 is not None:
        with open(p1, 'w', newline='', encoding='utf-8') as f:
            f.write(c1)
        with open(p2, 'w', newline='', encoding='utf-8') as f:
            f.write(c2)
        err, recs, gh = None, None, None
        try:
            rb.query_csv(tcsv, p1, ',', 'quoted_rfc', po, ',', 'quoted_rfc', 'utf-8', [], hdr, '#')
            with open(po, newline='', encoding='utf-8') as f:
                lines = refcsv.ref_read(f.read(), ',', 'quoted_rfc').records
            if exp.error is None and exp.header is not None:
                gh, recs = (lines[0] if lines else None), lines[1:]
            else:
                recs = lines
        except Exception as e:
            err = err_class(e)
        judge(res, 'query_csv_comment_prefix', q, tcsv, A, hdr, exp, recs, gh, err)
    if hdr:
        from rbql import rbql_sqlite
        conn = sqlite3.connect(':memory:')
        conn.execute('CREATE TABLE t (%s)' % ', '.join('%s TEXT' % n for n in an))
        conn.execute('CREATE TABLE b (jk TEXT, jv TEXT)')
        conn.executemany('INSERT INTO t VALUES (%s)' % ', '.join('?' for _ in an), A)
        conn.executemany('INSERT INTO b VALUES (?, ?)', B)
        err, recs, gh = None, None, None
        try:
            rbql_sqlite.query_sqlite_to_csv(text, conn, 't', po, ',', 'quoted_rfc', 'utf-8', [])
            with open(po, newline='', encoding='utf-8') as f:
                lines = refcsv.ref_read(f.read(), ',', 'quoted_rfc').records
            if exp.error is None and exp.header is not None:
                gh, recs = (lines[0] if lines else None), lines[1:]
            else:
                recs = lines
        except Exception as e:
            err = err_class(e)
        conn.close()
        judge(res, 'sqlite_to_csv', q, text, A, hdr, exp, recs, gh, err)


CLI_CFGS = [
    # (delim arg, policy arg, out-format, effective (in_dlm, in_policy), effective (out_dlm, out_policy))
    (',', None, 'input', (',', 'quoted'), (',', 'quoted')),
    (',', 'quoted_rfc', 'input', (',', 'quoted_rfc'), (',', 'quoted_rfc')),
    ('TAB', 'quoted', 'input', ('\t', 'quoted'), ('\t', 'quoted')),
    (';', None, 'csv', (';', 'quoted'), (',', 'quoted')),
    (',', None, 'tsv', (',', 'quoted'), ('\t', 'simple')),
    ('|', None, 'input', ('|', 'simple'), ('|', 'simple')),
    (',', None, 'input', (',', 'quoted'), (',', 'quoted'), 'latin-1'),
]


def cfg_enc(cfg):
    return cfg[5] if len(cfg) > 5 else 'utf-8'


def cli_expect_and_check(res, ep, q, text, A, hdr, exp, rc, out_bytes, err_bytes, cfg, extra):
    odlm, opol = cfg[4]
    stderr = err_bytes.decode('utf-8', 'replace')
    errlines = [l for l in stderr.split('\n') if l.strip()]
    case = dict({'entry_point': ep, 'query': text, 'A': A, 'has_header': hdr, 'cli': cfg[:3]}, **(extra or {}))
    res.evaluations += 1
    res.traces += 1
    res.feat('ep_' + ep)
    if exp.error is not None:
        want = 'Error [%s]' % ERRTYPE.get(exp.error[0], exp.error[0])
        # a streaming query may already have emitted records (or the header) before it failed; the statement constrains exit status and stderr only
        if rc == 0 or not errlines or not errlines[0].startswith(want):
            res.violation('cli-failure-convention', case, {'exit': 'non-zero', 'stderr_starts_with': want}, {'exit': rc, 'stdout': out_bytes[:80], 'stderr': stderr[:200]})
        else:
            res.feat('cli_failures_ok')
        return
    if rc != 0:
        res.violation('cli-failure-on-valid-query', case, {'exit': 0}, {'exit': rc, 'stderr': stderr[:300]})
        return
    if any(not l.startswith('Warning: ') for l in errlines):
        res.violation('cli-stderr-not-only-warnings', case, 'only Warning: lines', stderr[:300])
        return
    lines = refcsv.ref_read(out_bytes.decode(cfg_enc(cfg)), odlm, opol).records
    gh = None
    if exp.header is not None:
        gh, lines = (lines[0] if lines else None), lines[1:]
    want = strtab(exp.records)
    if opol == 'quoted':      # line breaks inside cells are not representable outside quoted_rfc: such cells are never sent to these configurations
        pass
    if lines != want or (exp.header is not None and (gh is None or len(gh) != len(exp.header) or any(x != '<count>' and x != y for x, y in zip(exp.header, gh)))):
        res.violation('cli-output-differs', case, {'records': want, 'header': exp.header}, {'records': lines, 'header': gh, 'stdout': out_bytes[:120]})
        return
    res.nontrivial += 1


def run_cli_inprocess(res, q, A, hdr, exp, cfg, scratch, via_stdin):
    from rbql import rbql_main
    ddlm, dpol = cfg[3]
    p1, p2, po = [os.path.join(scratch, n) for n in ('t1.csv', 't2.csv', 'out.csv')]
    with open(p1, 'w', newline='', encoding=cfg_enc(cfg)) as f:
        f.write(refcsv.ref_write(([names_for(A)] if hdr else []) + A, ddlm, dpol))
    with open(p2, 'w', newline='', encoding=cfg_enc(cfg)) as f:
        f.write(refcsv.ref_write(([BNAMES] if hdr else []) + B, ddlm, dpol))
    text = render(q, p2)
    argv = ['rbql', '--query', text, '--delim', cfg[0], '--out-format', cfg[2]] + (['--encoding', cfg_enc(cfg)] if cfg_enc(cfg) != 'utf-8' else [])
    if cfg[1]:
        argv += ['--policy', cfg[1]]
    if hdr:
        argv += ['--with-headers']
    fake_out = io.TextIOWrapper(io.BytesIO(), encoding='utf-8')
    fake_err = io.StringIO()
    saved = (sys.argv, sys.stdin, sys.stdout, sys.stderr)
    if via_stdin:
        with open(p1, 'rb') as f:
            fake_in = io.TextIOWrapper(io.BytesIO(f.read()), encoding='utf-8')     # the CLI re-wraps stdin.buffer with its own --encoding
    else:
        argv += ['--input', p1, '--output', po]
        fake_in = io.TextIOWrapper(io.BytesIO(b''), encoding='utf-8')
    rc = 0
    try:
        sys.argv, sys.stdin, sys.stdout, sys.stderr = argv, fake_in, fake_out, fake_err
        try:
            rbql_main.main()
        except SystemExit as e:
            rc = e.code if isinstance(e.code, int) else (0 if e.code is None else 1)
    finally:
        sys.argv, sys.stdin, sys.stdout, sys.stderr = saved
    try:
        fake_out.flush()
    except Exception:
        pass
    out_bytes = fake_out.buffer.getvalue()
    if not via_stdin:
        stdout_extra = out_bytes
        out_bytes = b''
        if os.path.exists(po):
            with open(po, 'rb') as f:
                out_bytes = f.read()
            os.remove(po)
        if stdout_extra:
            res.violation('cli-writes-to-stdout-with-output-file', {'query': text}, b'', stdout_extra[:100])
    cli_expect_and_check(res, 'cli_inprocess_stdin' if via_stdin else 'cli_inprocess_file', q, text, A, hdr, exp, rc, out_bytes, fake_err.getvalue().encode(), cfg, None)


ENV_MODES = [0]


def run_cli_subprocess(res, q, A, hdr, exp, cfg, scratch, via_stdin):
    ddlm, dpol = cfg[3]
    p1, p2, po = [os.path.join(scratch, n) for n in ('t1.csv', 't2.csv', 'out.csv')]
    with open(p1, 'w', newline='', encoding=cfg_enc(cfg)) as f:
        f.write(refcsv.ref_write(([names_for(A)] if hdr else []) + A, ddlm, dpol))
    with open(p2, 'w', newline='', encoding=cfg_enc(cfg)) as f:
        f.write(refcsv.ref_write(([BNAMES] if hdr else []) + B, ddlm, dpol))
    text = render(q, p2)
    argv = [sys.executable, '-m', 'rbql', '--query', text, '--delim', cfg[0], '--out-format', cfg[2]] + (['--encoding', cfg_enc(cfg)] if cfg_enc(cfg) != 'utf-8' else [])
    if cfg[1]:
        argv += ['--policy', cfg[1]]
    if hdr:
        argv += ['--with-headers']
    env = dict(os.environ)
    env['PYTHONWARNINGS'] = 'ignore'
    env['PYTHONDONTWRITEBYTECODE'] = '1'
    env.pop('PYTHONPATH', None)
    # the process environment is not an argument of the query: the same result under the inherited locale, an ASCII-only C / POSIX locale without UTF-8 mode, and C.UTF-8
    # (query texts are ASCII; the data is not)
    ENV_MODES[0] += 1
    mode = ENV_MODES[0] % 4
    for k_ in ('LC_ALL', 'LANG', 'LC_CTYPE', 'PYTHONUTF8', 'PYTHONIOENCODING'):
        if mode:
            env.pop(k_, None)
    if mode == 1:
        env.update({'LC_ALL': 'C', 'PYTHONUTF8': '0'})
    elif mode == 2:
        env.update({'LC_ALL': 'C.UTF-8'})
    elif mode == 3:
        env.update({'LC_ALL': 'POSIX', 'PYTHONUTF8': '0', 'PYTHONIOENCODING': 'ascii'})
    env['PYTHONHASHSEED'] = str(ENV_MODES[0] % 3)       # three fixed hash seeds: set / dict-of-str iteration order is part of the environment too
    res.feat('cli_subprocess_env_mode_%d' % mode)
    if via_stdin:
        with open(p1, 'rb') as f:
            data = f.read()
        p = subprocess.run(argv, input=data, stdout=subprocess.PIPE, stderr=subprocess.PIPE, cwd=tree.PY_ROOT, env=env, timeout=60)
        out_bytes = p.stdout
    else:
        p = subprocess.run(argv + ['--input', p1, '--output', po], stdin=subprocess.DEVNULL, stdout=subprocess.PIPE, stderr=subprocess.PIPE, cwd=tree.PY_ROOT, env=env, timeout=60)
        out_bytes = b''
        if os.path.exists(po):
            with open(po, 'rb') as f:
                out_bytes = f.read()
            os.remove(po)
        if p.stdout:
            res.violation('cli-writes-to-stdout-with-output-file', {'query': text}, b'', p.stdout[:100])
    cli_expect_and_check(res, 'cli_subprocess_stdin' if via_stdin else 'cli_subprocess_file', q, text, A, hdr, exp, p.returncode, out_bytes, p.stderr, cfg, {'environment': ['inherited', 'LC_ALL=C PYTHONUTF8=0', 'LC_ALL=C.UTF-8', 'LC_ALL=POSIX PYTHONUTF8=0 PYTHONIOENCODING=ascii'][mode]})


def run_cli_sqlite(res, q, A, exp, fmt, scratch, to_file, name_input):
    """the `rbql sqlite` command line, in-process: database file with table t (and b), --out-format csv (quoted_rfc by definition) / tsv / omitted"""
    from rbql import rbql_main
    dbp, po = os.path.join(scratch, 'db.sqlite'), os.path.join(scratch, 'out.csv')
    if os.path.exists(dbp):
        os.remove(dbp)
    an = names_for(A)
    conn = sqlite3.connect(dbp)
    conn.execute('CREATE TABLE t (%s)' % ', '.join('%s TEXT' % n for n in an))
    conn.executemany('INSERT INTO t VALUES (%s)' % ', '.join('?' for _ in an), A)
    if q.get('join') or name_input:
        conn.execute('CREATE TABLE b (jk TEXT, jv TEXT)')
        conn.executemany('INSERT INTO b VALUES (?, ?)', B)
    conn.commit()
    conn.close()
    text = render(q)
    argv = ['rbql', 'sqlite', dbp, '--query', text] + (['--out-format', fmt] if fmt else []) + (['--input', 't'] if (name_input or q.get('join')) else []) + (['--output', po] if to_file else [])
    fake_out = io.TextIOWrapper(io.BytesIO(), encoding='utf-8')
    fake_err = io.StringIO()
    saved = (sys.argv, sys.stdin, sys.stdout, sys.stderr)
    rc = 0
    try:
        sys.argv, sys.stdin, sys.stdout, sys.stderr = argv, io.TextIOWrapper(io.BytesIO(b''), encoding='utf-8'), fake_out, fake_err
        try:
            rbql_main.main()
        except SystemExit as e:
            rc = e.code if isinstance(e.code, int) else (0 if e.code is None else 1)
    finally:
        sys.argv, sys.stdin, sys.stdout, sys.stderr = saved
    try:
        fake_out.flush()
    except Exception:
        pass
    out_bytes = fake_out.buffer.getvalue()
    if to_file:
        extra, out_bytes = out_bytes, b''
        if os.path.exists(po):
            with open(po, 'rb') as f:
                out_bytes = f.read()
            os.remove(po)
        if extra:
            res.violation('cli-writes-to-stdout-with-output-file', {'query': text, 'cli': 'sqlite'}, b'', extra[:100])
    cfg = ('sqlite', None, fmt or '(default)', None, ('\t', 'simple') if fmt == 'tsv' else (',', 'quoted_rfc'))
    cli_expect_and_check(res, 'cli_sqlite_file' if to_file else 'cli_sqlite_stdout', q, text, A, True, exp, rc, out_bytes, fake_err.getvalue().encode(), cfg, {'argv': argv[3:]})


def cases(sh):
    qs, named = queries()
    if sh.get('tier') == 'thorough':
        # thorough: the 21 structurally different base queries of C08 as well (every clause and join kind)
        from vf.checks import c08
        extra = [q for q in c08.bases(0)[0] if not any(refql.strip_alias(it)[0] in ('unnest',) for it in q.get('items', []))]
        qs = qs + [dict(q, join=(dict(q['join'], keys=[(F('a', 1), F('b', 1))]) if q.get('join') else None)) for q in extra]
    out = []
    for q in qs:
        for A in TABLES:
            for hdr in (False, True):
                out.append((q, A, hdr))
    for q in named:
        for A in TABLES:
            if len(A[0]) >= 3:
                out.append((q, A, True))
    return out


def table_ok_for(A, cfg):
    dlm, pol = cfg[3]
    odlm, opol = cfg[4]
    for r in A:
        for c in r:
            if cfg_enc(cfg) == 'latin-1' and any(ord(ch) > 255 for ch in c):
                return False
            if pol != 'quoted_rfc' and ('\n' in c or '\r' in c):
                return False
            if opol != 'quoted_rfc' and ('\n' in c):
                return False
            if pol == 'simple' and dlm in c:
                return False
            if opol == 'simple' and odlm in c:
                return False
    return True


def part_env(sh, res):
    """the documented ways to name the JOIN table of a CSV query - absolute path, path relative to the main table, path relative to the working directory, ~-path,
    a name registered in ~/.rbql_table_names - and the default init file ~/.rbql_init_source.py: the same result as query_table gives with the data / code passed directly"""
    rb = tree.load()
    eng = tree.engine()
    from rbql import rbql_main
    base = '/dev/shm' if os.path.isdir('/dev/shm') else tempfile.gettempdir()
    scratch = tempfile.mkdtemp(prefix='vfc13e.', dir=base)
    saved_home, saved_cwd = os.environ.get('HOME'), os.getcwd()
    try:
        home, work, data = [os.path.join(scratch, d) for d in ('home', 'work', 'data')]
        for d in (home, work, data, os.path.join(work, 'sub'), os.path.join(home, 'tables'), os.path.join(data, 'near')):
            os.makedirs(d)
        os.environ['HOME'] = home
        os.chdir(work)
        A, Bt = TABLES[0], [['k', 'J1'], ['m', 'J2'], ['zz', 'J3']]
        p1 = os.path.join(data, 't1.csv')
        with open(p1, 'w', newline='', encoding='utf-8') as f:
            f.write(refcsv.ref_write(A, ',', 'quoted'))
        spots = {'absolute': (os.path.join(scratch, 'abs_b.csv'), os.path.join(scratch, 'abs_b.csv')), 'relative_to_main_table': (os.path.join(data, 'near', 'nb.csv'), 'near/nb.csv'),
                 'relative_to_cwd': (os.path.join(work, 'sub', 'wb.csv'), 'sub/wb.csv'), 'tilde': (os.path.join(home, 'tables', 'hb.csv'), '~/tables/hb.csv'),
                 'registered_name': (os.path.join(scratch, 'reg_b.csv'), 'my_countries')}
        for kind, (path, ref) in spots.items():
            with open(path, 'w', newline='', encoding='utf-8') as f:
                f.write(refcsv.ref_write(Bt, ',', 'quoted'))
        with open(os.path.join(home, '.rbql_table_names'), 'w') as f:
            f.write('other_table\t/nonexistent/x.csv\nmy_countries\t%s\n' % spots['registered_name'][0])
        J = lambda t: {'type': t, 'keys': [(F('a', 1), F('b', 1))]}
        S = lambda **kw: dict({'kind': 'select', 'where': None, 'join': None, 'order': None, 'distinct': None, 'top': None, 'group': None}, **kw)
        qs = [S(items=[F('a', 1), F('b', 2)], join=J('JOIN')), S(items=[('star', None)], join=J('LEFT JOIN')), {'kind': 'update', 'assign': [(F('a', 2), F('b', 2))], 'where': None, 'join': J('INNER JOIN')}]
        po = os.path.join(scratch, 'out.csv')
        for q in qs:
            exp = refql.evaluate(q, A, Bt, None, None)
            for kind, (path, ref) in spots.items():
                text = render(q, ref)
                for route in ('query_csv', 'cli'):
                    err, recs = None, None
                    try:
                        if route == 'query_csv':
                            rb.query_csv(text, p1, ',', 'quoted', po, ',', 'quoted', 'utf-8', [], False)
                        else:
                            saved = (sys.argv, sys.stdout, sys.stderr)
                            sys.argv, sys.stdout, sys.stderr = ['rbql', '--query', text, '--delim', ',', '--input', p1, '--output', po], io.StringIO(), io.StringIO()
                            try:
                                rbql_main.main()
                            except SystemExit as e:
                                if e.code not in (0, None):
                                    err = 'exit %r: %s' % (e.code, sys.stderr.getvalue()[:200])
                            finally:
                                sys.argv, sys.stdout, sys.stderr = saved
                        if err is None:
                            with open(po, newline='', encoding='utf-8') as f:
                                recs = refcsv.ref_read(f.read(), ',', 'quoted').records
                            os.remove(po)
                    except Exception as e:
                        err = err_class(e) + ': ' + str(e)[:200]
                    res.evaluations += 1
                    res.traces += 1
                    res.states += 1
                    res.feat('ep_join_table_' + kind)
                    if err is not None or recs != strtab(exp.records):
                        res.violation('entry-point-disagrees', {'entry_point': route, 'join_table_named_by': kind, 'reference_in_query': ref, 'query': text, 'cwd': 'work/', 'main_table': 'data/t1.csv'}, {'records': strtab(exp.records)}, {'records': recs, 'error': err})
                    else:
                        res.nontrivial += 1
        # documented command-line options not covered by the configuration grid: the explicit `csv` mode word, --comment-prefix with a multi-character prefix,
        # --policy monocolumn (no --delim), --policy whitespace, --init-source-file
        def cli(argv, stdin_bytes=None):
            saved = (sys.argv, sys.stdin, sys.stdout, sys.stderr)
            fake_out = io.TextIOWrapper(io.BytesIO(), encoding='utf-8')
            sys.argv, sys.stdin, sys.stdout, sys.stderr = ['rbql'] + argv, io.TextIOWrapper(io.BytesIO(stdin_bytes or b''), encoding='utf-8'), fake_out, io.StringIO()
            rc_ = 0
            try:
                try:
                    rbql_main.main()
                except SystemExit as e:
                    rc_ = e.code if isinstance(e.code, int) else (0 if e.code is None else 1)
                errtext = sys.stderr.getvalue()
            finally:
                sys.argv, sys.stdin, sys.stdout, sys.stderr = saved
            fake_out.flush()
            return rc_, fake_out.buffer.getvalue().decode('utf-8'), errtext
        pc = os.path.join(data, 'c.csv')
        with open(pc, 'w', newline='') as f:
            f.write('>>note\nk,v1\n>>x,y\nm,v2\n>k,v3\n')
        pm = os.path.join(data, 'm.txt')
        with open(pm, 'w', newline='') as f:
            f.write('k, 1\n\nm x\n')
        pw = os.path.join(data, 'w.txt')
        with open(pw, 'w', newline='') as f:
            f.write('k  v1\n m v2 \nn v3\n')
        pinit = os.path.join(data, 'init.py')
        with open(pinit, 'w') as f:
            f.write("def tag(x):\n    return 'I:' + x\n")
        option_cases = [
            ('csv_mode_word', ['csv', '--query', 'select a2, a1', '--delim', ',', '--input', p1], [[r[1], r[0]] for r in A], (',', 'quoted')),
            ('comment_prefix_two_chars', ['--query', 'select a1, a2, NR', '--delim', ',', '--comment-prefix', '>>', '--input', pc], [['k', 'v1', '1'], ['m', 'v2', '2'], ['>k', 'v3', '3']], (',', 'quoted')),
            ('policy_monocolumn', ['--query', 'select NR, a1', '--policy', 'monocolumn', '--out-format', 'csv', '--input', pm], [['1', 'k, 1'], ['2', ''], ['3', 'm x']], (',', 'quoted')),
            ('policy_whitespace', ['--query', 'select a2, a1, NF', '--policy', 'whitespace', '--delim', ' ', '--out-format', 'csv', '--input', pw], [['v1', 'k', '2'], ['v2', 'm', '2'], ['v3', 'n', '2']], (',', 'quoted')),
            ('init_source_file', ['--query', 'select tag(a1)', '--delim', ',', '--init-source-file', pinit, '--input', p1], [['I:' + r[0]] for r in A], (',', 'quoted')),
            ('stdin_with_comment_prefix', ['--query', 'select a1', '--delim', ',', '--comment-prefix', '#'], [['k'], ['m']], (',', 'quoted'), b'#c\nk,1\n#d\nm,2\n'),
        ]
        for oc in option_cases:
            label, argv, want_recs, (odlm, opol) = oc[:4]
            rc_, out_text, errtext = cli(argv, oc[4] if len(oc) > 4 else None)
            recs = refcsv.ref_read(out_text, odlm, opol).records if rc_ == 0 else None
            res.evaluations += 1
            res.traces += 1
            res.feat('ep_cli_option_' + label)
            if rc_ != 0 or recs != want_recs or [l for l in errtext.split('\n') if l.strip() and not l.startswith('Warning: ')]:
                res.violation('cli-output-differs', {'entry_point': 'cli_inprocess', 'option': label, 'argv': argv}, {'exit': 0, 'records': want_recs}, {'exit': rc_, 'records': recs, 'stdout': out_text[:200], 'stderr': errtext[:300]})
            else:
                res.nontrivial += 1
        # stderr on a terminal (the usual `rbql --query ... > out.csv` at a shell prompt): warnings and errors still go to stderr, stdout holds nothing but the table
        import pty, select
        def cli_with_tty_stderr(argv):
            master, slave = pty.openpty()
            env_ = dict(os.environ)
            env_['PYTHONWARNINGS'] = 'ignore'
            env_.pop('PYTHONPATH', None)
            p_ = subprocess.Popen([sys.executable, '-m', 'rbql'] + argv, stdin=subprocess.DEVNULL, stdout=subprocess.PIPE, stderr=slave, cwd=tree.PY_ROOT, env=env_)
            os.close(slave)
            out_ = p_.stdout.read()
            p_.wait(timeout=60)
            err_ = b''
            while True:
                r_, _, _ = select.select([master], [], [], 0.2)
                if not r_:
                    break
                try:
                    chunk = os.read(master, 4096)
                except OSError:
                    break
                if not chunk:
                    break
                err_ += chunk
            os.close(master)
            return p_.returncode, out_.decode('utf-8', 'replace'), err_.decode('utf-8', 'replace').replace('\r\n', '\n')
        pr = os.path.join(data, 'ragged.csv')
        with open(pr, 'w', newline='') as f:
            f.write('k,v1\nm\n')
        for label, argv, want_rc, want_out, want_err in (
                ('warning_with_tty_stderr', ['--query', 'select a1', '--delim', ',', '--input', pr], 0, 'k\nm\n', 'Warning: '),
                ('error_with_tty_stderr', ['--query', 'select int(a1)', '--delim', ',', '--input', pr], 1, '', 'Error [query execution]'),
                ('parse_error_with_tty_stderr', ['--query', 'select a1 where a1 = 1', '--delim', ',', '--input', pr], 1, '', 'Error [query parsing]')):
            rc_, out_text, errtext = cli_with_tty_stderr(argv)
            res.evaluations += 1
            res.traces += 1
            res.feat('ep_cli_tty_stderr')
            if (rc_ == 0) != (want_rc == 0) or out_text != want_out or not errtext.lstrip().startswith(want_err):
                res.violation('cli-stderr-convention', {'entry_point': 'cli_subprocess', 'stderr': 'a terminal (pty)', 'case': label, 'argv': argv}, {'exit': want_rc, 'stdout': want_out, 'stderr_starts_with': want_err}, {'exit': rc_, 'stdout': out_text[:200], 'stderr': errtext[:300]})
            else:
                res.nontrivial += 1
        # the default init file: functions defined in ~/.rbql_init_source.py are available to CSV queries (library and command line)
        code = "def tag(x):\n    return 'T:' + x\nSUFFIX = '!'\n"
        with open(os.path.join(home, '.rbql_init_source.py'), 'w') as f:
            f.write(code)
        text = "select tag(a1), a2 + SUFFIX"
        out = []
        eng.query_table(text, qcheck.copy_table(A), out, [], user_init_code=code)
        want = strtab(out)
        db = os.path.join(scratch, 'db.sqlite')
        conn = sqlite3.connect(db)
        conn.execute('CREATE TABLE t (c1 TEXT, c2 TEXT, c3 TEXT)')
        conn.executemany('INSERT INTO t VALUES (?, ?, ?)', A)
        conn.commit()
        conn.close()
        for route, argv in (('query_csv', None), ('cli', ['rbql', '--query', text, '--delim', ',', '--input', p1, '--output', po]), ('cli_sqlite', ['rbql', 'sqlite', db, '--input', 't', '--query', text, '--output', po])):
            err, recs = None, None
            try:
                if argv is None:
                    rb.query_csv(text, p1, ',', 'quoted', po, ',', 'quoted', 'utf-8', [], False)
                else:
                    saved = (sys.argv, sys.stdout, sys.stderr)
                    sys.argv, sys.stdout, sys.stderr = list(argv), io.StringIO(), io.StringIO()
                    try:
                        rbql_main.main()
                    except SystemExit as e:
                        if e.code not in (0, None):
                            err = 'exit %r: %s' % (e.code, sys.stderr.getvalue()[:200])
                    finally:
                        sys.argv, sys.stdout, sys.stderr = saved
                if err is None:
                    with open(po, newline='', encoding='utf-8') as f:
                        recs = refcsv.ref_read(f.read(), ',', 'quoted_rfc' if route == 'cli_sqlite' else 'quoted').records
                    if route == 'cli_sqlite':
                        recs = recs[1:]        # sqlite tables always have a header
                    os.remove(po)
            except Exception as e:
                err = err_class(e) + ': ' + str(e)[:200]
            res.evaluations += 1
            res.traces += 1
            res.feat('ep_default_init_file')
            if err is not None or recs != want:
                res.violation('entry-point-disagrees', {'entry_point': route, 'feature': '~/.rbql_init_source.py', 'query': text}, {'records': want}, {'records': recs, 'error': err})
            else:
                res.nontrivial += 1
        res.sample({'join_table_named_by': sorted(spots), 'default_init_file': '~/.rbql_init_source.py'})
    finally:
        os.chdir(saved_cwd)
        if saved_home is None:
            os.environ.pop('HOME', None)
        else:
            os.environ['HOME'] = saved_home
        shutil.rmtree(scratch, ignore_errors=True)
    return res


def run_shard(sh):
    if sh['part'] == 'env':
        return part_env(sh, core.Result())
    res = core.Result()
    base = '/dev/shm' if os.path.isdir('/dev/shm') else tempfile.gettempdir()
    scratch = tempfile.mkdtemp(prefix='vfc13.', dir=base)
    try:
        allc = cases(sh)
        for idx, (q, A, hdr) in enumerate(allc):
            if idx % sh['nshards'] != sh['shard']:
                continue
            exp = expected(q, A, hdr)
            if exp.error is None and (any(v is None or isinstance(v, (list, tuple)) for r in exp.records for v in r) or any(len(r) == 0 for r in exp.records)):
                res.feat('skipped_non_string_results')      # the quantifier: results over string cells only (None / list values are rendered differently by each backend by design)
                continue
            if exp.error is not None and exp.error[0] == 'sort':
                continue          # incomparable sort keys: outside every property
            res.states += 1
            if sh['part'] == 'api':
                run_api_entry_points(res, q, A, hdr, exp, scratch)
                res.transitions += 6
            elif sh['part'] == 'cli_in':
                for ci, cfg in enumerate(CLI_CFGS):
                    tabs = [A] + ([SPECIAL['nl']] if cfg[1] == 'quoted_rfc' else []) + ([SPECIAL['tab']] if cfg[0] == 'TAB' else []) + ([SPECIAL['latin']] if cfg_enc(cfg) == 'latin-1' else [])
                    for T in tabs:
                        if not table_ok_for(T, cfg):
                            continue
                        e2 = exp if T is A else expected(q, T, hdr)
                        if e2.error is not None and e2.error[0] == 'sort':
                            continue
                        if e2.error is None and (any(v is None or isinstance(v, (list, tuple)) for r in e2.records for v in r) or any(len(r) == 0 for r in e2.records)):
                            continue
                        for via_stdin in (False, True):
                            run_cli_inprocess(res, q, T, hdr, e2, cfg, scratch, via_stdin)
                            res.transitions += 1
                if hdr:
                    for fi, fmt in enumerate((None, 'csv', 'tsv')):
                        for T in [A] + ([SPECIAL['nl'], SPECIAL['tab']] if fmt != 'tsv' else []):
                            if len(T[0]) != len(A[0]) and len(A[0]) < 3:
                                continue
                            if fmt == 'tsv' and any(('\t' in c or '\n' in c or '\r' in c) for r in T for c in r):
                                continue
                            e2 = exp if T is A else expected(q, T, True)
                            if (e2.error is not None and e2.error[0] == 'sort') or (e2.error is None and (any(v is None or isinstance(v, (list, tuple)) for r in e2.records for v in r) or any(len(r) == 0 for r in e2.records))):
                                continue
                            for to_file in (True, False):
                                run_cli_sqlite(res, q, T, e2, fmt, scratch, to_file, name_input=(idx + fi) % 2 == 0)
                                res.transitions += 1
            else:
                if sh.get('tier') == 'thorough':
                    # thorough: a real process for every case under every configuration, file and stdin
                    for cfg in CLI_CFGS:
                        for T in [A] + ([SPECIAL['nl']] if cfg[1] == 'quoted_rfc' else []) + ([SPECIAL['tab']] if cfg[0] == 'TAB' else []) + ([SPECIAL['latin']] if cfg_enc(cfg) == 'latin-1' else []):
                            if not table_ok_for(T, cfg):
                                continue
                            e2 = exp if T is A else expected(q, T, hdr)
                            if (e2.error is not None and e2.error[0] == 'sort') or (e2.error is None and (any(v is None or isinstance(v, (list, tuple)) for r in e2.records for v in r) or any(len(r) == 0 for r in e2.records))):
                                continue
                            for via_stdin in (False, True):
                                run_cli_subprocess(res, q, T, hdr, e2, cfg, scratch, via_stdin=via_stdin)
                                res.transitions += 1
                    res.outcome('err' if exp.error else 'ok')
                    continue
                # real processes: rotate configuration and stdin/file per case so that every combination is spawned across the case list
                cfg = CLI_CFGS[idx % len(CLI_CFGS)]
                T = A
                if cfg[1] == 'quoted_rfc' and idx % 2 == 0:
                    T = SPECIAL['nl']
                if cfg[0] == 'TAB' and idx % 2 == 0:
                    T = SPECIAL['tab']
                if cfg_enc(cfg) == 'latin-1':
                    T = SPECIAL['latin']
                if table_ok_for(T, cfg):
                    e2 = exp if T is A else expected(q, T, hdr)
                    if (e2.error is not None and e2.error[0] == 'sort') or (e2.error is None and (any(v is None or isinstance(v, (list, tuple)) for r in e2.records for v in r) or any(len(r) == 0 for r in e2.records))):
                        continue
                    run_cli_subprocess(res, q, T, hdr, e2, cfg, scratch, via_stdin=(idx // len(CLI_CFGS)) % 2 == 0)
                    res.transitions += 1
            res.outcome('err' if exp.error else 'ok')
        res.sample({'part': sh['part'], 'query': render(allc[sh['shard'] % len(allc)][0]), 'has_header': allc[sh['shard'] % len(allc)][2]})
    finally:
        shutil.rmtree(scratch, ignore_errors=True)
    return res


def main(tier, seed):
    t0 = time.time()
    # the CLI subprocess must be the tree's rbql, not an installed copy
    env = dict(os.environ)
    env.pop('PYTHONPATH', None)
    env['PYTHONWARNINGS'] = 'ignore'
    p = subprocess.run([sys.executable, '-m', 'rbql', '--version'], stdout=subprocess.PIPE, stderr=subprocess.PIPE, cwd=tree.PY_ROOT, env=env, timeout=60)
    with open(os.path.join(tree.PY_ROOT, 'rbql', '_version.py')) as f:
        ver = re.search(r"['\"]([0-9.]+)['\"]", f.read()).group(1)
    if p.stdout.decode().strip() != ver:
        core.harness_error('python -m rbql in %s reports version %r, the tree is %r' % (tree.PY_ROOT, p.stdout.decode().strip(), ver))
    shards = []
    for part, n in (('api', 16), ('cli_in', 16), ('cli_sub', 32)):
        for i in range(n):
            shards.append({'part': part, 'shard': i, 'nshards': n, 'tier': tier})
    shards.append({'part': 'env', 'shard': 0, 'nshards': 1, 'tier': tier})
    res = core.run_shards('vf.checks.c13', shards)
    return core.finish(PID, tier, seed, res, t0,
        rule='34 queries x 3 tables x {header, no header} (+ named-column queries) through 6 library entry points (query_table, query with Table* classes, query with own plain classes, query_csv, pandas, sqlite->csv), '
             'the CLI in-process under 6 configurations x {file, stdin->stdout} with special-cell tables for explicit policies, the `rbql sqlite` command line in-process (--out-format omitted / csv / tsv x file / stdout, cells with line breaks and tabs), and real `python -m rbql` subprocesses rotating over all configurations; non-trivial = a successful run that agrees with RefQL',
        assumptions=['results are compared after str(); expressions are type-agnostic over string cells', 'child processes run with PYTHONWARNINGS=ignore (Python 3.12 prints its own SyntaxWarning when compiling rbql_engine.py from source)'],
        extra={'cli_configurations': [list(c[:3]) + [cfg_enc(c)] for c in CLI_CFGS]},
        min_features={'ep_query_table': 100, 'ep_query_registry_from': 1000, 'ep_pandas_duplicate_labels': 50, 'ep_join_table_registered_name': 6, 'ep_join_table_relative_to_cwd': 6, 'ep_join_table_tilde': 6, 'ep_default_init_file': 3, 'ep_cli_tty_stderr': 3, 'ep_cli_option_policy_monocolumn': 1, 'ep_cli_option_init_source_file': 1, 'ep_query_custom_classes': 100, 'ep_query_csv': 100, 'ep_query_csv_comment_prefix': 100, 'ep_pandas': 100, 'ep_sqlite_to_csv': 50, 'ep_cli_inprocess_file': 300, 'ep_cli_inprocess_stdin': 300,
                      'ep_cli_sqlite_file': 300, 'ep_cli_sqlite_stdout': 300, 'cli_subprocess_env_mode_1': 30, 'cli_subprocess_env_mode_3': 30, 'ep_cli_subprocess_file': 30, 'ep_cli_subprocess_stdin': 30, 'cli_failures_ok': 20, 'failing_agree': 20})


def replay(rep):
    print('re-run the check; case:', rep['case'])
    return 0
