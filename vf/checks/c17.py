"""C17 - like(text, pattern) implements SQL LIKE exactly.

For every pattern up to the bound, the complete prefix tree of texts up to the bound is walked while the
reference automaton (vf.reflike) is stepped along; every (text, pattern) pair is then evaluated by the real
engine through the public path `select like(a1, a2)` (Python) / the node driver (rbql-js) and compared.
"""
import time, itertools
from vf import core, tree, reflike

PID = 'C17'
SIGMA = ['a', 'b', '%', '_', '.', '*', '\\', '[', '(', '^', '$', '+', '?', '|']
META = ['.', '*', '\\', '[', '(', '^', '$', '+', '?', '|']
BATCH = 40000


def patterns(alpha, maxlen, minlen=0):
    for n in range(minlen, maxlen + 1):
        for t in itertools.product(alpha, repeat=n):
            yield ''.join(t)


def text_alpha_for(p, mode):
    if mode == 'full':
        return SIGMA
    if mode == 'long':
        return ['a', 'b']
    if mode == 'other':
        return ['-', '/', ',', '#', ' ', 'a']
    if mode == 'astral':
        return ['\U0001F600', 'a', 'b']
    syms = []
    for c in p:
        if c not in syms and c not in '%_':
            syms.append(c)
    for c in ['a', 'b']:
        if c not in syms:
            syms.append(c)
    for c in META:
        if c not in syms:
            syms.append(c)     # one metacharacter that is NOT in the pattern
            break
    if '%' in p or '_' in p:
        pass
    return syms


def walk(p, alpha, maxlen, rows, exps, res):
    """DFS over the text tree, stepping the reference automaton; appends (text, pattern) rows."""
    S0 = reflike.start(p)
    stack = [('', S0)]
    while stack:
        text, S = stack.pop()
        rows.append([text, p])
        exps.append(reflike.accepts(p, S))
        res.states += 1
        if len(text) < maxlen:
            for c in alpha:
                res.transitions += 1
                stack.append((text + c, reflike.step(p, S, c)))


def flush(rows, exps, res, lang, spell):
    if not rows:
        return
    if lang == 'py':
        eng = tree.engine()
        out = []
        try:
            with core.watchdog(600):
                eng.query_table('select %s(a1, a2)' % spell, rows, out, [])
            got = [r[0] for r in out]
        except Exception as e:
            res.violation('like-exception', {'lang': lang, 'rows': rows[:3], 'n': len(rows)}, None, repr(e))
            got = None
    else:
        from vf import js
        o = js.run_batch([{'op': 'like', 'rows': rows}])[0]
        got = o.get('r')
        if got is None:
            res.violation('like-exception', {'lang': lang, 'rows': rows[:3], 'n': len(rows)}, None, o)
    if got is not None:
        if len(got) != len(exps):
            res.violation('like-rowcount', {'lang': lang, 'n': len(rows)}, len(exps), len(got))
        else:
            for (t, p), e, g in zip(rows, exps, got):
                res.evaluations += 1
                if e:
                    res.feat('match')
                else:
                    res.feat('nomatch')
                if any(c in META for c in p):
                    res.nontrivial += 1
                if g is not e:
                    res.violation('like-mismatch:' + lang, {'lang': lang, 'text': t, 'pattern': p}, e, g)
            res.traces += len(got)
            if rows:
                k = (len(rows) * 7) // 11
                res.sample({'lang': lang, 'text': rows[k][0], 'pattern': rows[k][1], 'like': exps[k]})
    del rows[:]
    del exps[:]


def run_interleaved(sh, res):
    """groups of 12 patterns evaluated text-major: every pattern is used again after 11 others (a bounded or re-keyed regexp cache shows here)"""
    pats = sh['patterns']
    texts = sh['texts']
    for g in range(0, len(pats), 12):
        group = pats[g:g + 12]
        rows, exps = [], []
        for t in texts:
            for p in group:
                rows.append([t, p])
                exps.append(reflike.like(t, p))
        res.states += len(rows)
        res.transitions += len(rows)
        res.feat('interleaved_pairs', len(rows))
        flush(rows, exps, res, sh['lang'], 'like')


def run_literal(sh, res):
    """the pattern written as a string literal inside the query text (the documented form `... where like(a1, 'foo%bar')`): the engine substitutes the user's
    expression into its generated code, which must not interpret anything in it ($-patterns of String.replace, quotes, backslashes)"""
    from vf import drive, qcheck, refql, js
    toks = sh['tokens']
    pats = [''.join(t) for n in range(0, 3) for t in itertools.product(toks, repeat=n)][sh['lo']:sh['hi']]
    batch, meta = [], []
    for pi, p in enumerate(pats):
        alpha = sorted(set([c for c in p if c not in '%_'] + ['a', '$']))[:5]
        texts = [''.join(t) for n in range(0, 3) for t in itertools.product(alpha, repeat=n)]
        if p.replace('%', '').replace('_', '') and p.replace('%', '').replace('_', '') not in texts:
            texts.append(p.replace('%', 'a').replace('_', '$'))
            texts.append(p.replace('%', '').replace('_', 'a'))
        quote = "'" if pi % 2 == 0 else '"'
        text_q = 'select a1 where like(a1, %s)' % refql.lit_text(p, quote)
        exp = [[t] for t in texts if reflike.like(t, p)]
        A = [[t] for t in texts]
        if sh['lang'] == 'py':
            got = drive.run_py(text_q, qcheck.copy_table(A), None, None, None)
            judge_literal(res, 'py', text_q, p, A, exp, got)
        else:
            batch.append({'op': 'query', 'query': text_q, 'input': A})
            meta.append((text_q, p, A, exp))
    if sh['lang'] == 'js' and batch and js.available():
        for (text_q, p, A, exp), o in zip(meta, js.run_batch(batch)):
            judge_literal(res, 'js', text_q, p, A, exp, qcheck.js_got(o))


def judge_literal(res, lang, text_q, p, A, exp, got):
    res.evaluations += 1
    res.traces += 1
    res.states += len(A)
    res.transitions += len(A)
    if got['error'] is not None or got['records'] != exp:
        res.violation(('js:' if lang == 'js' else '') + 'like-literal-pattern-mismatch', {'lang': lang, 'query': text_q, 'pattern': p, 'texts': [r[0] for r in A]}, exp, {'records': got['records'], 'error': got['error']})
    else:
        res.feat('literal_pattern_queries_' + lang)
        res.feat('match', len(exp))
        res.feat('nomatch', len(A) - len(exp))
        if any(c in p for c in META) or '$' in p:
            res.nontrivial += 1


def run_shard(sh):
    res = core.Result()
    if sh['mode'] == 'literal':
        run_literal(sh, res)
        return res
    if sh['mode'] == 'interleaved':
        run_interleaved(sh, res)
        return res
    rows, exps = [], []
    lang = sh['lang']
    n = 0
    for p in sh['patterns']:
        if sh['mode'] == 'mixed':
            # patterns of all lengths in lexicographic order, so a pattern and its prefixes are compiled in the same query
            full = len(p) <= sh['full_upto']
            alpha = text_alpha_for(p, 'full' if full else 'reduced')
            walk(p, alpha, sh['tmax_full'] if full else sh['tmax'], rows, exps, res)
            n += 1
            if len(rows) >= BATCH:
                flush(rows, exps, res, lang, 'like' if n % 2 else 'LIKE')
            continue
        alpha = text_alpha_for(p, sh['mode'])
        walk(p, alpha, sh['tmax'], rows, exps, res)
        n += 1
        if len(rows) >= BATCH:
            flush(rows, exps, res, lang, 'like' if n % 2 else 'LIKE')
    flush(rows, exps, res, lang, 'like')
    res.outcome('patterns=%d' % 0)
    return res


def build(tier):
    plans = []
    if tier == 'quick':
        plans.append(('py', 'mixed', sorted(patterns(SIGMA, 4)), 4, {'full_upto': 3, 'tmax_full': 3}))
        plans.append(('js', 'full', list(patterns(SIGMA, 2)), 3))
        plans.append(('js', 'reduced', list(patterns(SIGMA, 3, 3)), 3))
    else:
        plans.append(('py', 'mixed', sorted(patterns(SIGMA, 4)), 5, {'full_upto': 3, 'tmax_full': 4}))
        plans.append(('py', 'reduced', list(patterns(['a', '%', '_', '.', '\\', '['], 5, 5)), 5))
        plans.append(('js', 'full', list(patterns(SIGMA, 3)), 3))
        plans.append(('js', 'reduced', list(patterns(SIGMA, 4, 4)), 4))
    # non-BMP characters: one code point, two UTF-16 units (the JS twin counts units)
    astral = ['\U0001F600', 'a', '%', '_']
    plans.append(('py', 'astral', list(patterns(astral, 3)), 3))
    plans.append(('js', 'astral', list(patterns(astral, 3)), 3))
    # scale probe: patterns of length 5-8 and texts up to 8 over a 3/2-symbol alphabet (beyond the length bound of the main product)
    plans.append(('py', 'long', list(patterns(['a', '%', '_'], 8 if tier == 'thorough' else 7, 5)), 8 if tier == 'thorough' else 7))
    plans.append(('js', 'long', list(patterns(['a', '%', '_'], 6, 5)), 6))
    other = ['-', '/', ',', '#', ' ', '%', '_', 'a']
    plans.append(('py', 'other', list(patterns(other, 3)), 3))
    plans.append(('js', 'other', list(patterns(other, 3)), 3))
    shards = []
    ipats = list(patterns(['a', 'b', '%', '_', '.'], 3))
    itexts = list(patterns(['a', 'b', '.'], 3))
    for lang in ('py', 'js'):
        for lo, hi in core.chunks(len(ipats), 8):
            shards.append({'lang': lang, 'mode': 'interleaved', 'patterns': ipats[lo:hi], 'texts': itexts})
    ltoks = ['a', '%', '_', '$$', '$&', "$'", '$`', '$', "'", '"', '\\', '.', '$1', '${a1}']
    nl = 1 + len(ltoks) + len(ltoks) ** 2
    for lang in ('py', 'js'):
        for lo, hi in core.chunks(nl, 8):
            shards.append({'lang': lang, 'mode': 'literal', 'tokens': ltoks, 'lo': lo, 'hi': hi})
    for plan in plans:
        lang, mode, pats, tmax = plan[:4]
        per = max(1, len(pats) // 48)
        for i in range(0, len(pats), per):
            sh = {'lang': lang, 'mode': mode, 'patterns': pats[i:i + per], 'tmax': tmax}
            if len(plan) > 4:
                sh.update(plan[4])
            shards.append(sh)
    return shards, plans


def main(tier, seed):
    t0 = time.time()
    from vf import js
    shards, plans = build(tier)
    if not js.available():
        shards = [s for s in shards if s['lang'] != 'js']
    res = core.run_shards('vf.checks.c17', shards)
    return core.finish(PID, tier, seed, res, t0,
        rule='for every pattern up to the bound over the 14-symbol alphabet, the complete prefix tree of texts (full alphabet, or for the deeper '
             'slices the alphabet {pattern symbols, a, b, one metacharacter absent from the pattern}); states = (pattern, text) nodes with the reference '
             'automaton state stepped along each edge; the pattern also written as a string literal inside the query text (all sequences of <= 2 tokens incl. $$, $&, $\', $`, quotes, backslash; both engines); non-trivial = pattern contains a regular-expression metacharacter',
        assumptions=['single-line texts only (the quantifier says so)', 'for the reduced slices: the reference semantics cannot distinguish characters absent from the pattern; '
                     'one absent metacharacter is kept so that an implementation that does distinguish it is still seen'],
        extra={'plans': [{'lang': pl[0], 'mode': pl[1], 'patterns': len(pl[2]), 'text_maxlen': pl[3]} for pl in plans]},
        min_features={'match': 10000, 'nomatch': 10000, 'literal_pattern_queries_py': 150, 'literal_pattern_queries_js': 150})


def replay(rep):
    c = rep['case']
    eng = tree.engine()
    out = []
    eng.query_table('select like(a1, a2)', [[c['text'], c['pattern']]], out, [])
    exp = reflike.like(c['text'], c['pattern'])
    print('text=%r pattern=%r expected=%r observed=%r' % (c['text'], c['pattern'], exp, out[0][0]))
    return 0 if out[0][0] is exp else 1
