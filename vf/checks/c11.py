"""C11 - field splitting implements the documented quoting dialect exactly.

Space: the complete prefix tree of lines up to a length bound over the class alphabet
{quote, delimiter, space, other[, other2, other3]} for every delimiter x preserve flag,
judged against RefCSV.ref_split; helper level (csv_utils), public level (CSVRecordIterator over
a one-line stream) and - when node is available - the JS twin through the batch driver.
"""
import io, time, itertools
from vf import core, tree, refcsv, alphabet

PID = 'C11'


def lines_upto(symbols, maxlen):
    for n in range(0, maxlen + 1):
        for tup in itertools.product(symbols, repeat=n):
            yield ''.join(tup)


def cfgs(tier, seed):
    o = alphabet.ordinary(seed, 3)
    big = 11 if tier == 'thorough' else 8
    rel = 8 if tier == 'thorough' else 6
    pub = 7 if tier == 'thorough' else 6
    multi = 10 if tier == 'thorough' else 7
    shards = []
    for dlm in [',', ';', '\t', ' ', '|']:
        syms = ['"', dlm, ' ', o[0]] if dlm != ' ' else ['"', ' ', o[0], o[1]]
        for preserve in (False, True):
            # split the tree by first symbol to get parallelism
            for first in [None] + syms:
                shards.append({'kind': 'helper', 'dlm': dlm, 'syms': syms, 'preserve': preserve, 'maxlen': big, 'first': first})
        # relabelling: three concrete "other" symbols
        syms2 = ['"', dlm, ' ', o[0], o[1], o[2]] if dlm != ' ' else ['"', ' ', o[0], o[1], o[2]]
        for preserve in (False, True):
            shards.append({'kind': 'helper', 'dlm': dlm, 'syms': syms2, 'preserve': preserve, 'maxlen': rel, 'first': None, 'all': True})
        for policy in ('quoted', 'quoted_rfc', 'simple', 'whitespace', 'monocolumn'):
            if policy == 'whitespace' and dlm != ' ':
                continue
            shards.append({'kind': 'public', 'dlm': dlm, 'syms': syms, 'policy': policy, 'maxlen': pub})
    # multi-character delimiters (the statement says "followed by the delimiter")
    for dlm in ['::', ':;']:
        syms = ['"', dlm[0], dlm[1], ' ', o[0]] if dlm[0] != dlm[1] else ['"', dlm[0], ' ', o[0]]
        for preserve in (False, True):
            shards.append({'kind': 'helper', 'dlm': dlm, 'syms': syms, 'preserve': preserve, 'maxlen': multi, 'first': None, 'all': True})
        shards.append({'kind': 'public', 'dlm': dlm, 'syms': syms, 'policy': 'quoted', 'maxlen': pub})
    for dlm in [',', '\t', '::']:
        shards.append({'kind': 'atoms', 'dlm': dlm, 'o': o[0], 'maxatoms': 5 if tier == 'thorough' else 4})
    # the other policies at helper level
    shards.append({'kind': 'plain', 'syms': ['"', ',', ' ', o[0]], 'maxlen': big - 1})
    # whitespace policy: only U+0020 separates; tab, NBSP, vertical tab and a Unicode space are ordinary characters
    shards.append({'kind': 'plain', 'syms': [' ', o[0], '\t', '\xa0', '\x0b', '\u2003'], 'maxlen': 6 if tier == 'thorough' else 5})
    return shards


def diagnose(dlm, line):
    if len(dlm) > 1 and '"' in line:
        return 'F5:multichar-delimiter-quoted-split'
    return 'split-mismatch'


def run_shard(sh):
    res = core.Result()
    split = tree.split_function()
    if sh['kind'] in ('helper', 'plain', 'atoms') and split is None:
        res.feat('helper_level_absent')      # refactored away: the public reader path (kind 'public') still decides the property
        return res
    if sh['kind'] == 'helper':
        dlm, preserve = sh['dlm'], sh['preserve']
        if sh.get('all'):
            gen = lines_upto(sh['syms'], sh['maxlen'])
        elif sh['first'] is None:
            gen = iter([''])
        else:
            gen = (sh['first'] + rest for rest in lines_upto(sh['syms'], sh['maxlen'] - 1))
        for line in gen:
            res.evaluations += 1
            res.states += 1
            if line:
                res.transitions += 1
            exp = refcsv.ref_split_quoted(line, dlm, preserve)
            try:
                got = split(line, dlm, 'quoted', preserve)
                got = (list(got[0]), bool(got[1]))
            except Exception as e:
                got = ('EXC', repr(e))
            res.traces += 1
            nt = '"' in line
            if nt:
                res.nontrivial += 1
                if exp[1]:
                    res.feat('warning_cases')
                else:
                    res.feat('quoted_field_cases')
            ok = got == (exp[0], exp[1])
            if ok and preserve and dlm.join(got[0]) != line:
                ok = False
            if not ok:
                res.violation(diagnose(dlm, line), {'kind': 'helper', 'line': line, 'dlm': dlm, 'preserve': preserve}, exp, got)
            elif res.evaluations % 4099 == 7:
                res.sample({'line': line, 'dlm': dlm, 'preserve': preserve, 'fields': exp[0], 'warning': exp[1]})
            res.outcome((len(exp[0]), exp[1]))
        return res
    if sh['kind'] == 'plain':
        for line in lines_upto(sh['syms'], sh['maxlen']):
            for policy, dlm in (('simple', ','), ('whitespace', ' '), ('monocolumn', '')):
                for preserve in (False, True):
                    res.evaluations += 1
                    exp = refcsv.ref_split(line, dlm, policy)
                    try:
                        got = split(line, dlm, policy, preserve)
                        if got is None:
                            continue
                        got = (list(got[0]), bool(got[1]))
                    except Exception as e:
                        got = ('EXC', repr(e))
                    res.traces += 1
                    if policy == 'whitespace' and preserve:
                        # preserved whitespace split: re-joins to the line, and stripping gives the plain split
                        ok = got[1] is False and [f.strip(' ') for f in got[0]] == exp[0] and (not exp[0] or ' '.join(got[0]) == line)
                    else:
                        ok = got == (exp[0], False)
                    if len(exp[0]) > 1:
                        res.nontrivial += 1
                    if not ok:
                        res.violation('plain-split-mismatch', {'kind': 'plain', 'line': line, 'policy': policy, 'preserve': preserve}, exp, got)
            res.states += 1
            if line:
                res.transitions += 1
        return res
    if sh['kind'] == 'atoms':
        # scale probe: every sequence of 3..k field "atoms" joined by the delimiter - lines of up to ~40 characters, far beyond the exhaustive length bound
        dlm = sh['dlm']
        o = sh['o']
        atoms = ['', o, '"' + o + '"', '"' + o + '""' + o + '"', ' "' + o + '" ', o + '"' + o, '"', '"' + o + dlm + o + '"', '"' + o + '"' + o, ' ' + o + ' ']
        for k in range(3, sh['maxatoms'] + 1):
            for tup in itertools.product(atoms, repeat=k):
                line = dlm.join(tup)
                for preserve in (False, True):
                    res.evaluations += 1
                    res.states += 1
                    res.transitions += 1
                    exp = refcsv.ref_split_quoted(line, dlm, preserve)
                    try:
                        got = split(line, dlm, 'quoted', preserve)
                        got = (list(got[0]), bool(got[1]))
                    except Exception as e:
                        got = ('EXC', repr(e))
                    res.traces += 1
                    res.nontrivial += 1
                    res.feat('long_lines')
                    ok = got == (exp[0], exp[1]) and (not preserve or dlm.join(got[0]) == line)
                    if not ok:
                        res.violation(diagnose(dlm, line), {'kind': 'helper', 'line': line, 'dlm': dlm, 'preserve': preserve}, exp, got)
        res.sample({'line_of_atoms': dlm.join(atoms[2:7]), 'dlm': dlm})
        return res
    if sh['kind'] == 'public':
        rc = tree.csvmod()
        eng = tree.engine()
        dlm, policy = sh['dlm'], sh['policy']
        for line in lines_upto(sh['syms'], sh['maxlen']):
            res.evaluations += 1
            res.states += 1
            if line:
                res.transitions += 1
            fields, warn = refcsv.ref_split(line, dlm, policy)
            if policy == 'quoted_rfc' and line.count('"') % 2 == 1:
                exp = ('error',)   # unbalanced quotes at end of input: defective record
            elif policy == 'quoted_rfc' and warn:
                exp = ('error',)
            else:
                exp = ([fields], bool(warn))
            try:
                it = rc.CSVRecordIterator(io.StringIO(line + '\n'), None, dlm, policy)
                recs = it.get_all_records()
                ws = it.get_warnings()
                got = (recs, any('double quote' in w for w in ws))
            except eng.RbqlIOHandlingError:
                got = ('error',)
            except Exception as e:
                got = ('EXC', repr(e))
            res.traces += 1
            if '"' in line:
                res.nontrivial += 1
                if policy.startswith('quoted'):
                    res.feat('warning_cases' if warn else 'quoted_field_cases')
            if got != exp:
                res.violation(diagnose(dlm, line) if policy.startswith('quoted') else 'public-split-mismatch',
                              {'kind': 'public', 'line': line, 'dlm': dlm, 'policy': policy}, exp, got)
            elif res.evaluations % 997 == 5:
                res.sample({'stream': line + '\n', 'dlm': dlm, 'policy': policy, 'records': [fields], 'warning': warn})
            res.outcome(repr(exp)[:40])
        return res
    raise AssertionError(sh)


def js_part(tier, seed, res):
    """JS twin of the splitter against the reference (anchors list rbql-js/csv_utils.js)."""
    from vf import js
    if not js.available():
        res.feat('js_skipped')
        return
    o = alphabet.ordinary(seed, 2)
    maxlen = 7 if tier == 'thorough' else 6
    cases = []
    meta = []
    for dlm in [',', '\t', ' ', '::']:
        syms = ['"', ' ', o[0]] + ([dlm] if len(dlm) == 1 and dlm != ' ' else ([o[1]] if dlm == ' ' else [':']))
        for line in lines_upto(syms, maxlen):
            for preserve in (False, True):
                cases.append({'op': 'split', 'line': line, 'dlm': dlm, 'policy': 'quoted', 'preserve': preserve})
                meta.append((line, dlm, preserve))
    outs = js.run_batch(cases)
    for (line, dlm, preserve), out in zip(meta, outs):
        res.evaluations += 1
        res.traces += 1
        exp = refcsv.ref_split_quoted(line, dlm, preserve)
        got = (out.get('fields'), out.get('warning')) if 'error' not in out else ('EXC', out['error'])
        if '"' in line:
            res.nontrivial += 1
        res.feat('js_cases')
        if got != (exp[0], exp[1]):
            res.violation(('js:' + diagnose(dlm, line)), {'kind': 'js', 'line': line, 'dlm': dlm, 'preserve': preserve}, exp, got)


def main(tier, seed):
    t0 = time.time()
    shards = cfgs(tier, seed)
    res = core.run_shards('vf.checks.c11', shards)
    js_part(tier, seed, res)
    return core.finish(PID, tier, seed, res, t0,
        rule='complete prefix tree of lines up to the length bound over {quote, delimiter, space, other(s)} per delimiter x preserve flag; '
             'non-trivial = line contains a quote (so the quoting rules, not str.split, decide); states = lines, transitions = append-one-character edges',
        assumptions=['characters outside {quote, delimiter chars, space} are interchangeable for the splitter; three seed-chosen representatives '
                     'are all relabelled exhaustively up to the relabelling bound', 'RefCSV.ref_split is the dialect'],
        extra={'bounds': {'tier': tier, 'ordinary': alphabet.ordinary(seed, 3)}},
        min_features={'warning_cases': 500, 'quoted_field_cases': 500})


def replay(rep):
    c = rep['case']
    if c['kind'] == 'helper':
        exp = refcsv.ref_split_quoted(c['line'], c['dlm'], c['preserve'])
        got = tree.split_function()(c['line'], c['dlm'], 'quoted', c['preserve'])
        print('expected', exp, 'observed', got)
        return 0 if (list(got[0]), bool(got[1])) == (exp[0], exp[1]) else 1
    print('replay of kind %s: re-run the check' % c['kind'])
    return 0
