"""C18 - the Python and JavaScript implementations agree on the CSV dialect and on headers.

(a) split: all lines up to the bound over {o, quote, delimiter, space} x delimiters x preserve x policies; (b) quoting: all fields up to the bound over
{o, quote, delimiter, space, LF, CR}; (c) readers: all files up to the bound over {o, quote, comma, space, LF, CR, #} x policies x comment prefix x header,
JS in bulk (csv_path) and stream mode; (d) cross round trip: Py-write -> JS-read and JS-write -> Py-read on all representable small tables;
(e) output header of language-neutral select lists x header / no header. Every case runs on both implementations (node batch driver) and must agree.
"""
import io, time, itertools
from vf import core, tree, refcsv, refql, alphabet, js, qcheck
from vf.checks import c12, c10

PID = 'C18'
POLICIES = [('simple', ','), ('quoted', ','), ('quoted_rfc', ','), ('whitespace', ' '), ('monocolumn', '')]


def strings(syms, n, minlen=0):
    for k in range(minlen, n + 1):
        for t in itertools.product(syms, repeat=k):
            yield ''.join(t)


def diagnose(kind, case):
    return kind + '-disagreement'


def part_split(sh, res):
    split = tree.split_function()
    if split is None:
        res.feat('helper_level_absent')
        return
    o = sh['o']
    cases, meta = [], []
    for dlm in sh['dlms']:
        syms = ['"', ' ', o] + [c for c in dlm if c not in '" ']
        if dlm == ' ':
            syms = ['"', ' ', o, 'x']
        for line in strings(syms, sh['maxlen']):
            for policy in sh['policies']:
                if policy == 'whitespace' and dlm != ' ':
                    continue
                for preserve in (False, True):
                    cases.append({'op': 'split', 'line': line, 'dlm': dlm, 'policy': policy, 'preserve': preserve})
                    meta.append((line, dlm, policy, preserve))
    outs = js.run_batch(cases)
    for (line, dlm, policy, preserve), out in zip(meta, outs):
        res.evaluations += 1
        res.traces += 1
        res.states += 1
        res.transitions += 1 if line else 0
        try:
            p = split(line, dlm, policy, preserve)
            if p is None or out.get('skip'):
                continue
            p = (list(p[0]), bool(p[1]))
        except Exception as e:
            p = ('EXC', repr(e))
        j = (out.get('fields'), out.get('warning')) if 'error' not in out else ('EXC', out['error'])
        if '"' in line:
            res.nontrivial += 1
        res.feat('split_cases')
        if p != j:
            res.violation('split-disagreement', {'kind': 'split', 'line': line, 'dlm': dlm, 'policy': policy, 'preserve': preserve}, {'python': p}, {'js': j})
    res.sample({'split': cases[len(cases) // 2]})


def part_quote(sh, res):
    cu = tree.csv_utils()
    if not (hasattr(cu, 'quote_field') and hasattr(cu, 'rfc_quote_field')):
        res.feat('helper_level_absent')
        return
    o = sh['o']
    cases, meta = [], []
    for dlm in sh['dlms']:
        syms = ['"', ' ', o, '\n', '\r'] + [c for c in dlm if c not in '" ']
        for f in strings(syms, sh['maxlen']):
            cases.append({'op': 'quote', 'field': f, 'dlm': dlm})
            meta.append((f, dlm))
    outs = js.run_batch(cases)
    for (f, dlm), out in zip(meta, outs):
        res.evaluations += 1
        res.traces += 1
        res.states += 1
        res.transitions += 1
        p = (cu.quote_field(f, dlm), cu.rfc_quote_field(f, dlm))
        j = (out.get('q'), out.get('rfc'))
        res.feat('quote_cases')
        if p[0] != f:
            res.nontrivial += 1
        if p != j:
            res.violation('quote-disagreement', {'kind': 'quote', 'field': f, 'dlm': dlm}, {'python': p}, {'js': j})
        # and both must be what the dialect says
        exp = (refcsv.ref_quote(f, dlm, 'quoted'), refcsv.ref_quote(f, dlm, 'quoted_rfc'))
        if p != exp:
            res.violation('quote-vs-reference', {'kind': 'quote', 'field': f, 'dlm': dlm}, exp, p)
    res.sample({'quote': cases[len(cases) // 3]})


def norm_py(r):
    header, recs, warns, err = r
    return {'header': header, 'records': recs, 'warnings': sorted(warns), 'error': err}


def norm_js(out, has_header):
    if 'error' in out:
        e = out['error']
        # both the exception class and the type reported by the implementation's own exception_to_error_info() must say "IO handling"
        cls = 'io:' if (e.get('name') == 'RbqlIOHandlingError' and e.get('type') == 'IO handling') else 'EXC:' + str(e.get('name')) + '/' + str(e.get('type')) + ':'
        return {'header': None, 'records': None, 'warnings': [], 'error': cls + e.get('msg', '')}
    return {'header': out.get('header') if has_header else None, 'records': out.get('records'), 'warnings': sorted(out.get('warnings', [])), 'error': None}


def part_read(sh, res):
    rc, eng = tree.csvmod(), tree.engine()
    o = sh['o']
    syms = [o, '"', ',', ' ', '\n', '\r', '#', '\ufeff']
    policy, dlm = sh['policy']
    cases, meta = [], []
    for has_header in (False, True):
        for comment in (None, '#', '', '##'):
            for text in strings(syms, sh['maxlen'], sh['minlen']):
                if sh['first'] is not None and not text.startswith(sh['first']):
                    continue
                if comment in ('', '##') and len(text) > sh['maxlen'] - 1:
                    continue      # the empty prefix (= no comment lines at all) and a two-character prefix: one symbol below the bound
                res.feat('reader_comment_prefix_%s' % {None: 'none', '#': 'hash', '': 'empty', '##': 'two_chars'}[comment])
                data = text.encode('utf-8')
                for mode in ('bulk', 'stream', 'stream1'):      # stream1: the same bytes delivered one byte per chunk (the finest fragmentation: CR, LF and multi-byte characters each split from their neighbours)
                    if mode == 'stream1' and len(data) < 2:
                        continue
                    c = {'op': 'read', 'mode': 'stream' if mode == 'stream1' else mode, 'encoding': 'utf-8', 'dlm': dlm, 'policy': policy, 'has_header': has_header, 'comment_prefix': comment}
                    if mode == 'bulk':
                        c['hex'] = data.hex()
                    elif mode == 'stream1':
                        c['pieces'] = ['%02x' % b for b in data]
                        res.feat('reader_cases_one_byte_chunks')
                    else:
                        c['pieces'] = [data.hex()] if data else []
                    cases.append(c)
                    meta.append((text, has_header, comment, mode))
    outs = js.run_batch(cases)
    cache = {}
    for (text, has_header, comment, mode), out in zip(meta, outs):
        key = (text, has_header, comment)
        if key not in cache:
            cache[key] = norm_py(c12.read_all(rc, eng, io.BytesIO(text.encode('utf-8')), 'utf-8', dlm, policy, has_header, comment, 1024))
        p = cache[key]
        j = norm_js(out, has_header)
        res.evaluations += 1
        res.traces += 1
        res.states += 1
        res.transitions += 1
        res.feat('reader_cases')
        if p['warnings'] or p['error']:
            res.nontrivial += 1
            res.feat('reader_cases_with_warning_or_error')
        if p != j:
            res.violation('reader-disagreement', {'kind': 'read', 'text': text, 'policy': policy, 'dlm': dlm, 'has_header': has_header, 'comment': comment, 'js_mode': mode}, {'python': p}, {'js': j})
    if cases:
        res.sample({'read': {'text': meta[len(meta) // 2][0], 'policy': policy}})


def part_bytes(sh, res):
    """byte-level files: every byte string up to the bound over {a, comma, LF, quote, the bytes of a 2-byte and a 3-byte character, 0xFF} - valid, truncated and
    invalid UTF-8 at every position incl. the very end of the input - read as utf-8 and as latin-1/binary by both readers (JS in bulk and stream mode)"""
    rc, eng = tree.csvmod(), tree.engine()
    alpha = [0x61, 0x2c, 0x0a, 0x22, 0xc3, 0xa9, 0xe2, 0x82, 0xac, 0xff]
    cases, meta = [], []
    for n in range(0, sh['maxlen'] + 1):
        for tup in itertools.product(alpha, repeat=n):
            if n and tup[0] != sh['first']:
                continue
            if n == 0 and sh['first'] != alpha[0]:
                continue
            data = bytes(tup)
            for enc_py, enc_js in (('utf-8', 'utf-8'), ('latin-1', 'binary')):
                for policy, dlm in (('simple', ','), ('quoted_rfc', ',')):
                    for mode in ('bulk', 'stream'):
                        c = {'op': 'read', 'mode': mode, 'encoding': enc_js, 'dlm': dlm, 'policy': policy, 'has_header': False, 'comment_prefix': None}
                        if mode == 'bulk':
                            c['hex'] = data.hex()
                        else:
                            c['pieces'] = [data.hex()] if data else []
                        cases.append(c)
                        meta.append((data, enc_py, policy, dlm, mode))
    outs = js.run_batch(cases)
    cache = {}
    for (data, enc_py, policy, dlm, mode), out in zip(meta, outs):
        key = (data, enc_py, policy)
        if key not in cache:
            cache[key] = norm_py(c12.read_all(rc, eng, io.BytesIO(data), enc_py, dlm, policy, False, None, 1024))
        p = cache[key]
        j = norm_js(out, False)
        res.evaluations += 1
        res.traces += 1
        res.states += 1
        res.transitions += 1
        res.feat('byte_level_reader_cases')
        if p['error']:
            res.nontrivial += 1
            res.feat('byte_level_undecodable')
        if p != j and p['error'] and j['error'] and p['error'].startswith('io:') and j['error'].startswith('io:') and p['error'].startswith('io:Unable to decode') != j['error'].startswith('io:Unable to decode'):
            # the input has two defects at once (undecodable bytes AND defective quoting in an earlier record): both readers fail with an IO-handling error; which defect
            # a streaming reader meets first depends on how far it has read, so the message is not compared
            res.feat('byte_level_two_defects')
            continue
        if p != j:
            res.violation('reader-disagreement', {'kind': 'read-bytes', 'hex': data.hex(), 'encoding': enc_py, 'policy': policy, 'dlm': dlm, 'js_mode': mode}, {'python': p}, {'js': j})
    if cases:
        res.sample({'read_bytes': meta[len(meta) // 2][0].hex()})


def part_cross(sh, res):
    rc, eng = tree.csvmod(), tree.engine()
    o1, o2 = sh['o'], 'é'
    pol, dlm = sh['cfg']
    syms = c10.field_alphabet(dlm, o1, o2)
    F = list(c10.strings(syms, 2))
    tables = [[[f]] for f in F] + [[[f, g]] for f in F for g in F[:sh['pair_limit']]] + [[[f], [g, f]] for f in F[:12] for g in F[:12]]
    tables = [t for t in tables if c10.representable(t, dlm, pol)]
    enc = 'utf-8'
    # Python writes, JS reads
    cases = []
    py_bytes = []
    for t in tables:
        out = io.BytesIO()
        w = rc.CSVWriter(out, False, enc, dlm, pol)
        for r in t:
            w.write(list(r))
        w.finish()
        data = out.getvalue()
        py_bytes.append(data)
        cases.append({'op': 'read', 'mode': 'stream', 'encoding': enc, 'dlm': dlm, 'policy': pol, 'has_header': False, 'comment_prefix': None, 'pieces': [data.hex()] if data else []})
    # JS writes
    for t in tables:
        cases.append({'op': 'write', 'table': t, 'encoding': enc, 'dlm': dlm, 'policy': pol})
    outs = js.run_batch(cases)
    n = len(tables)
    for t, out in zip(tables, outs[:n]):
        exp = c10.norm_rfc(t) if pol == 'quoted_rfc' else t
        res.evaluations += 1
        res.traces += 1
        res.nontrivial += 1
        res.feat('cross_py_write_js_read')
        ragged = len(set(len(r) for r in t)) > 1
        warns = [w for w in out.get('warnings', []) if not (ragged and 'not consistent' in w)]
        if out.get('records') != exp or warns or 'error' in out:
            res.violation('cross-roundtrip-py-to-js', {'kind': 'cross', 'table': t, 'dlm': dlm, 'policy': pol}, exp, out)
    for ti, (t, out) in enumerate(zip(tables, outs[n:])):
        exp = c10.norm_rfc(t) if pol == 'quoted_rfc' else t
        res.evaluations += 1
        res.traces += 1
        res.nontrivial += 1
        res.feat('cross_js_write_py_read')
        if 'error' in out or out.get('warnings'):
            sig = 'F13:js-writer-spurious-separator-warning' if ('error' not in out and pol in ('simple', 'whitespace') and not any(dlm in f for r in t for f in r)) else 'cross-roundtrip-js-write'
            res.violation(sig, {'kind': 'cross', 'table': t, 'dlm': dlm, 'policy': pol}, exp, out)
            continue
        data = bytes.fromhex(out['hex'])
        # "they quote fields identically": the two writers emit the same bytes for the same table
        res.evaluations += 1
        if data != py_bytes[ti]:
            res.violation('writers-emit-different-bytes', {'kind': 'cross', 'table': t, 'dlm': dlm, 'policy': pol}, {'python_writer': py_bytes[ti].decode('utf-8', 'replace')}, {'js_writer': data.decode('utf-8', 'replace')})
        else:
            res.feat('writer_bytes_identical')
        try:
            it = rc.CSVRecordIterator(io.BytesIO(data), enc, dlm, pol)
            recs = it.get_all_records()
            ragged = len(set(len(r) for r in t)) > 1
            warns = [w for w in it.get_warnings() if not (ragged and 'not consistent' in w)]
        except Exception as e:
            recs, warns = None, [repr(e)]
        if recs != exp or warns:
            res.violation('cross-roundtrip-js-to-py', {'kind': 'cross', 'table': t, 'dlm': dlm, 'policy': pol, 'js_bytes': out['hex']}, exp, {'records': recs, 'warnings': warns})
    res.states += 2 * n
    res.transitions += 2 * n


def neutral_header_lists(seed, maxn):
    n1, n2, n3 = alphabet.names(seed, 3)
    F = lambda t, i, *st: ('f', t, i) + tuple(st)
    items = [F('a', 1), F('a', 2, 'a[N]'), F('a', 5), ('named', 'a', n1, 'attr'), ('named', 'a', n2, 'dq'), ('named', 'a', n3, 'sq'), ('NR',), ('NF',),
             ('cat', F('a', 1), ('lit', 'x')), ('lit', 'x,[y]"z('), ('list', F('a', 1), ('list', F('a', 2), F('a', 1))), ('star', None), ('star', 'a'),
             ('alias', ('cat', F('a', 1), ('lit', 'y')), 'Tot', 'AS'), ('alias', F('a', 2), 'low_1', 'as'), F('b', 1), ('named', 'b', 'jval', 'attr'), ('star', 'b'),
             ('alias', ('upper', F('a', 1)), 'up', 'AS'), ('alias', ('upper', ('cat', F('a', 2), F('a', 1))), 'both_up', 'as')]
    return items, [n1, n2, n3]


def part_header(sh, res):
    from vf import drive
    items, names = neutral_header_lists(sh['seed'], sh['maxn'])
    if sh.get('nasty'):
        # column names with quote characters and backslashes, addressed through both subscript quote styles
        names = ["driver's name", 'say "hi"', 'back\\slash']
        items = [it for it in items if it[0] != 'named'] + [('named', 'a', n, st) for n in names for st in ('dq', 'sq')]
    bnames = ['jkey', 'jval']
    A = [['k', 'm', 'c'], ['m', 'k', 'd']]
    B = [['k', 'p'], ['m', 'q']]
    if sh.get('wide'):
        # two-digit field numbers over 12-column tables
        names = ['w%d' % i for i in range(1, 13)]
        bnames = ['j%d' % i for i in range(1, 13)]
        A = [['k'] + ['v%d' % i for i in range(2, 13)]]
        B = [['k'] + ['u%d' % i for i in range(2, 13)]]
        F_ = lambda t, i, *st: ('f', t, i) + tuple(st)
        items = [F_('a', 10), F_('a', 12), F_('a', 11, 'a[N]'), F_('b', 10), F_('b', 12, 'a[N]'), F_('a', 2), F_('a', 13), ('star', 'b')]
    cases, meta = [], []
    for n in range(1, sh['maxn'] + 1):
        for tup in itertools.product(items, repeat=n):
            for hdr in (True, False):
                join = any((it[0] in ('f', 'named', 'star') and it[1] == 'b') for it in tup)
                if not hdr and any(it[0] == 'named' for it in tup):
                    continue
                for d in (None, 'count'):
                    if d and any(it[0] == 'list' for it in tup):
                        continue     # a list value is unhashable in Python only: not language-neutral under DISTINCT
                    q = {'kind': 'select', 'items': list(tup), 'where': None, 'order': None, 'distinct': d, 'top': None, 'group': None,
                         'join': {'type': 'INNER JOIN', 'keys': [(('f', 'a', 1), ('f', 'b', 1))]} if join else None}
                    c = {'op': 'header', 'query': refql.render(q, 'js'), 'input': A}
                    if join:
                        c['join'] = B
                    if hdr:
                        c['input_names'] = names
                        if join:
                            c['join_names'] = bnames
                    cases.append(c)
                    meta.append((q, hdr, join))
    outs = js.run_batch(cases)
    for (q, hdr, join), out in zip(meta, outs):
        got = drive.run_py(refql.render(q, 'py'), qcheck.copy_table(A), qcheck.copy_table(B) if join else None, names if hdr else None, bnames if (hdr and join) else None)
        res.evaluations += 1
        res.traces += 1
        res.states += 1
        res.transitions += 1
        res.feat('header_cases')
        p = {'header': got['header'] or [], 'error': got['error'][0] if got['error'] else None}
        j = {'header': out.get('header') or [], 'error': None}
        if 'error' in out:
            from vf.drive import classify_js
            j = {'header': [], 'error': classify_js(out['error'])[0]}
        if p['header']:
            res.nontrivial += 1
        if p != j:
            res.violation('header-disagreement', {'kind': 'header', 'q': q, 'query_py': refql.render(q), 'query_js': refql.render(q, 'js'), 'has_header': hdr}, {'python': p}, {'js': j})
    res.sample({'header_query': cases[len(cases) // 2]['query']})


def run_shard(sh):
    res = core.Result()
    {'split': part_split, 'quote': part_quote, 'read': part_read, 'bytes': part_bytes, 'cross': part_cross, 'header': part_header}[sh['part']](sh, res)
    return res


def main(tier, seed):
    t0 = time.time()
    if not js.available():
        core.harness_error('node is required for C18')
    o = alphabet.ordinary(seed, 1)[0]
    T = tier == 'thorough'
    shards = []
    for dlm in [',', ';', '\t', ' ', '|', '::', '.', '\\', ']', '^', '$', '*', '(']:      # incl. characters that are special inside regular expressions
        shards.append({'part': 'split', 'o': o, 'dlms': [dlm], 'policies': ['quoted'], 'maxlen': 8 if T else 7})
        shards.append({'part': 'split', 'o': o, 'dlms': [dlm], 'policies': ['simple', 'whitespace', 'monocolumn'], 'maxlen': 6 if T else 5})
        shards.append({'part': 'quote', 'o': o, 'dlms': [dlm], 'maxlen': 6 if T else 5})
    syms = [o, '"', ',', ' ', '\n', '\r', '#', '\ufeff']
    for pol in POLICIES:
        for first in syms:
            shards.append({'part': 'read', 'o': o, 'policy': pol, 'minlen': 1, 'maxlen': 6 if T else 5, 'first': first})
        shards.append({'part': 'read', 'o': o, 'policy': pol, 'minlen': 0, 'maxlen': 0, 'first': None})
    for cfg in c10.configs():
        if cfg[1] == '§' or cfg[0] == 'monocolumn':
            continue
        shards.append({'part': 'cross', 'o': o, 'cfg': cfg, 'pair_limit': 200 if T else 40})
    for b in (0x61, 0x2c, 0x0a, 0x22, 0xc3, 0xa9, 0xe2, 0x82, 0xac, 0xff):
        shards.append({'part': 'bytes', 'first': b, 'maxlen': 5 if T else 4})
    shards.append({'part': 'header', 'seed': seed, 'maxn': 2})
    shards.append({'part': 'header', 'seed': seed, 'maxn': 2, 'nasty': True})
    shards.append({'part': 'header', 'seed': seed, 'maxn': 2, 'wide': True})
    if T:
        shards.append({'part': 'header', 'seed': seed + 1, 'maxn': 2})
    res = core.run_shards('vf.checks.c18', shards)
    return core.finish(PID, tier, seed, res, t0,
        rule='every case is executed by both implementations: all lines / fields / files up to the length bounds over the class alphabets x delimiters x policies x comment prefix (none, #, empty, ##) x header (JS reader in bulk and stream mode), every byte string up to length 4-5 over 10 bytes (valid / truncated / invalid UTF-8) as utf-8 and latin-1, '
             'cross round trips on representable tables, header of all language-neutral select lists of <= 2 items; non-trivial = the line contains a quote / the field needs quoting / the file yields a warning or error / a header is produced',
        assumptions=['the quantifier\'s "random longer Unicode inputs" is not imitated by sampling; the seed rotates the ordinary character instead', 'header vocabulary restricted to forms both header parsers are specified for'],
        extra={'bounds': {'split': 8 if T else 7, 'quote': 6 if T else 5, 'read': 6 if T else 5}},
        min_features={'split_cases': 50000, 'quote_cases': 10000, 'reader_cases': 100000, 'reader_cases_one_byte_chunks': 30000, 'reader_cases_with_warning_or_error': 10000, 'cross_py_write_js_read': 1000, 'cross_js_write_py_read': 1000, 'header_cases': 500, 'writer_bytes_identical': 10000, 'byte_level_reader_cases': 50000, 'byte_level_undecodable': 10000, 'reader_comment_prefix_empty': 5000, 'reader_comment_prefix_two_chars': 5000})


def replay(rep):
    c = rep['case']
    cu = tree.csv_utils()
    if c.get('kind') == 'split':
        p_ = cu.smart_split(c['line'], c['dlm'], c['policy'], c['preserve'])
        j_ = js.run_batch([{'op': 'split', 'line': c['line'], 'dlm': c['dlm'], 'policy': c['policy'], 'preserve': c['preserve']}])[0]
        print('python:', (list(p_[0]), bool(p_[1])), 'js:', j_)
        return 0 if (list(p_[0]), bool(p_[1])) == (j_.get('fields'), j_.get('warning')) else 1
    if c.get('kind') == 'quote':
        p_ = (cu.quote_field(c['field'], c['dlm']), cu.rfc_quote_field(c['field'], c['dlm']))
        j_ = js.run_batch([{'op': 'quote', 'field': c['field'], 'dlm': c['dlm']}])[0]
        print('python:', p_, 'js:', j_)
        return 0 if p_ == (j_.get('q'), j_.get('rfc')) else 1
    if c.get('kind') == 'read':
        rc, eng = tree.csvmod(), tree.engine()
        data = c['text'].encode('utf-8')
        p_ = norm_py(c12.read_all(rc, eng, io.BytesIO(data), 'utf-8', c['dlm'], c['policy'], c['has_header'], c['comment'], 1024))
        req = {'op': 'read', 'mode': 'stream' if c['js_mode'] == 'stream1' else c['js_mode'], 'encoding': 'utf-8', 'dlm': c['dlm'], 'policy': c['policy'], 'has_header': c['has_header'], 'comment_prefix': c['comment']}
        if c['js_mode'] == 'bulk':
            req['hex'] = data.hex()
        elif c['js_mode'] == 'stream1':
            req['pieces'] = ['%02x' % b for b in data]
        else:
            req['pieces'] = [data.hex()] if data else []
        j_ = norm_js(js.run_batch([req])[0], c['has_header'])
        print('python:', p_, '\njs    :', j_)
        return 0 if p_ == j_ else 1
    print('re-run the check; case:', c)
    return 0
