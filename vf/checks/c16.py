"""C16 - queries are isolated: consecutive and thread-interleaved runs do not interfere.

Part 1 (interleavings): two real threads each run rbql.query() on their own iterator / writer / registry objects whose get_record (input and join),
write and finish - and the start of the query - hand a baton to a deterministic scheduler; only the baton holder runs. For every unordered pair of the
10 query kinds (55 pairs, same-kind pairs with different data and clause texts) EVERY interleaving of their scheduling points is executed (tables of 2
records in quick, 3 in thorough) and each query's outcome must equal its outcome alone in a fresh interpreter (computed in a subprocess).
Part 2 (histories): a history tree over 12 scenarios (successes, parse error, runtime errors, same query text against permuted headers, AVG over ints
then over strings) explored to depth 4 (quick) / 6 (thorough) with fork() snapshots: each node is a live interpreter; running an event in a forked child and
comparing with its fresh-interpreter outcome decides the node; nothing is replayed and no assumption about where state lives is made.
"""
import os, sys, json, time, itertools, subprocess, hashlib, traceback
from vf import core, tree, drive, sched

PID = 'C16'


def kinds(nrec):
    """each kind: two instances (query text, A, B, names) with different data and clause texts"""
    base0 = [['k', '1;2'], ['m', '3'], ['k', '4;5;6']][:nrec] + ([['n', '7']] if nrec > 3 else [])
    base1 = [['x', '9'], ['x', '8;7'], ['y', '6']][:nrec] + ([['z', '5;4']] if nrec > 3 else [])
    B0 = [['k', 'p'], ['k', 'q'], ['m', 'r']]
    B1 = [['x', 'u'], ['y', 'v']]
    poison0 = [list(r) for r in base0]
    poison0[1] = ['m', 'bad']
    poison1 = [list(r) for r in base1]
    poison1[1] = ['x', 'oops']
    K = {
        'plain': [('select a1, a2', base0, None, None), ('select a2, NR, a1', base1, None, None)],
        'where_like': [("select a1 where like(a1, 'k%')", base0, None, None), ("select a2, a1 where like(a1, '_')", base1, None, None)],
        'order': [('select a1, a2 order by a1', base0, None, None), ('select a2 order by a2 desc', base1, None, None)],
        'distinct_count': [('select distinct count a1', base0, None, None), ('select distinct count a1, NF', base1, None, None)],
        'aggregate': [('select a1, count(*), max(NR), avg(len(a2)) group by a1', base0, None, None), ('select count(*), ARRAY_AGG(a2), a1 group by a1', base1, None, None)],
        'unnest': [("select a1, unnest(a2.split(';'))", base0, None, None), ("select unnest(a2.split(';')), NR", base1, None, None)],
        'join': [('select a1, b2 join b on a1 == b1', base0, B0, None), ('select b2, a2 left join b on a1 == b1', base1, B1, None)],
        'update': [("update set a2 = a1 + 'z'", base0, None, None), ('update set a1 = NR where NR > 1', base1, None, None)],
        'runtime_error': [('select a1, int(a2.split(";")[0])', poison0, None, None), ('select int(a2.split(";")[0]) * 2', poison1, None, None)],
        'parse_error': [("select a1 where a1 = 'k'", base0, None, None), ('select a1 limit many', base1, None, None)],
        'named': [('select a.name, a["val"]', base0, None, ['name', 'val']), ('select a.name, a["val"]', base1, None, ['val', 'name'])],
        'order_fails_late': [('select a1, int(a2.split(";")[0]) order by a1', poison0, None, None), ('select a2 order by int(a2.split(";")[0]) desc', poison1, None, None)],
        'named_missing': [('select a["val"], NR', base0, None, ['name', 'val']), ('select a["val"], NR', base1, None, ['name', 'other'])],
        'numagg': [('select min(a2), max(a2), sum(a2), avg(a2), variance(a2), median(a2)', [[r[0], str(i + 1)] for i, r in enumerate(base0)], None, None),
                   ('select min(a2), max(a2), sum(a2), avg(a2), variance(a2), median(a2)', [[r[0], i + 1.75] for i, r in enumerate(base1)], None, None)],
    }
    return K


def outcome_of(run):
    """run() -> (records, header, warnings) or raises"""
    try:
        recs, header, warns = run()
        return {'records': recs, 'header': header, 'warnings': warns, 'error': None}
    except BaseException as e:
        if isinstance(e, (KeyboardInterrupt, SystemExit)):
            raise
        c = drive.classify_py(e)
        return {'records': None, 'header': None, 'warnings': None, 'error': [c[0], c[2]]}


_SHARED = {}
INIT_DIR = [None]
INIT_CODE = 'seen = set()\ncalls = [0]\ndef first_time(x):\n    calls[0] += 1\n    if x in seen:\n        return False\n    seen.add(x)\n    return True\n'


def shared_table(A):
    k = json.dumps(A)
    if k not in _SHARED:
        _SHARED[k] = [list(r) for r in A]
    return _SHARED[k]


def solo(text, A, B, names, style='full'):
    """style: how the public function is called - 'full' (every argument, positionally), 'defaults' (optional arguments left to their defaults,
    so the output header is not observable), 'kw' (every argument by keyword)"""
    eng = tree.engine()

    def run():
        out, warns, hdr = [], [], []
        A2, B2 = [list(r) for r in A], [list(r) for r in B] if B is not None else None
        bn = None if (B is None or names is None) else ['jk', 'jv']
        if style in ('shared', 'shared_csv'):
            # the caller keeps ONE table object in memory and runs query after query on it (no private copy per call)
            A2 = shared_table(A)
            if style == 'shared':
                eng.query_table(text, A2, out, warns, B2, names, bn, hdr)
                return out, hdr, warns
            import io
            stream = io.StringIO()
            eng.query(text, eng.TableIterator(A2, names), tree.csvmod().CSVWriter(stream, False, None, ',', 'quoted'), warns)
            return stream.getvalue().split('\n'), None, warns
        if style.startswith('initfile'):
            # the documented init file ~/.rbql_init_source.py, (re)written by the user before this query: the query sees the file as it is now
            import atexit, shutil, tempfile
            if INIT_DIR[0] is None:
                INIT_DIR[0] = tempfile.mkdtemp(prefix='vfc16i.', dir='/dev/shm' if os.path.isdir('/dev/shm') else None)
                atexit.register(shutil.rmtree, INIT_DIR[0], True)
            d = INIT_DIR[0]
            with open(os.path.join(d, '.rbql_init_source.py'), 'w') as f:
                f.write("def tag(x):\n    return '%s:' + x\n" % style)
            with open(os.path.join(d, 'in.csv'), 'w') as f:
                f.write(''.join(','.join('' if c is None else c for c in r) + '\n' for r in A))
            saved_home = os.environ.get('HOME')
            os.environ['HOME'] = d
            try:
                tree.load().query_csv(text, os.path.join(d, 'in.csv'), ',', 'quoted', os.path.join(d, 'out.csv'), ',', 'quoted', 'utf-8', warns, False)
            finally:
                if saved_home is None:
                    os.environ.pop('HOME', None)
                else:
                    os.environ['HOME'] = saved_home
            with open(os.path.join(d, 'out.csv')) as f:
                return f.read().split('\n'), None, warns
        if style == 'init':
            # the caller's init code keeps state of its own (a set of values seen so far): every query starts from the code's initial state
            eng.query_table(text, A2, out, warns, B2, names, bn, hdr, True, INIT_CODE)
            return out, hdr, warns
        if style == 'defaults':
            kw = {}
            if B2 is not None:
                kw['join_table'] = B2
            if names is not None:
                kw['input_column_names'] = names
            if bn is not None:
                kw['join_column_names'] = bn
            eng.query_table(text, A2, out, warns, **kw)
            return out, None, warns
        if style == 'kw':
            eng.query_table(query_text=text, input_table=A2, output_table=out, output_warnings=warns, join_table=B2, input_column_names=names, join_column_names=bn, output_column_names=hdr, normalize_column_names=True, user_init_code='')
            return out, hdr, warns
        eng.query_table(text, A2, out, warns, B2, names, bn, hdr)
        return out, hdr, warns
    return outcome_of(run)


def fresh_outcomes(instances):
    """each instance evaluated alone in a fresh interpreter (one subprocess per instance)"""
    outs = []
    for inst in instances:
        code = ("import sys, json; sys.path.insert(0, %r); from vf import tree; tree.load(); from vf.checks import c16; "
                "inst = json.loads(sys.stdin.read()); print(json.dumps(c16.solo(*inst)))" % core.VERIF)
        env = dict(os.environ)
        env['PYTHONWARNINGS'] = 'ignore'
        p = subprocess.run([sys.executable, '-c', code], input=json.dumps(inst).encode(), stdout=subprocess.PIPE, stderr=subprocess.PIPE, env=env, timeout=120)
        if p.returncode != 0:
            core.harness_error('fresh interpreter failed: ' + p.stderr.decode()[-1000:])
        outs.append(json.loads(p.stdout.decode().strip().split('\n')[-1]))
    return outs


def threaded_body(inst, result_slot):
    eng = tree.engine()
    text, A, B, names = inst

    def body(baton, tid):
        class It(eng.TableIterator):
            def get_record(self):
                baton.point(tid)
                return eng.TableIterator.get_record(self)

        class Wr(eng.TableWriter):
            def write(self, fields):
                baton.point(tid)
                return eng.TableWriter.write(self, fields)

            def finish(self):
                baton.point(tid)

        class Reg(eng.RBQLTableRegistry):
            def get_iterator_by_table_id(self, table_id, alias):
                if table_id.lower() != 'b' or B is None:
                    return None
                return It([list(r) for r in B], None if names is None else ['jk', 'jv'], True, alias)

        def run():
            out, warns = [], []
            w = Wr(out)
            eng.query(text, It([list(r) for r in A], names), w, warns, Reg())
            return out, (w.header or []), warns
        result_slot[tid] = outcome_of(run)
    return body


def schedules(n0, n1, bound):
    """all interleavings of n0 / n1 scheduling points with at most `bound` preemptions (bound None = all interleavings).
    A preemption is a switch away from a thread that could continue; the switch forced by a finished thread is free."""
    out = []

    def rec(r0, r1, cur, budget, acc):
        if r0 == 0 and r1 == 0:
            out.append(list(acc))
            return
        rem = (r0, r1)
        for nxt in (0, 1):
            if rem[nxt] == 0:
                continue
            cost = 0
            if cur is not None and nxt != cur and rem[cur] > 0:
                cost = 1
            if budget is not None and cost > budget:
                continue
            acc.append(nxt)
            rec(r0 - (nxt == 0), r1 - (nxt == 1), nxt, None if budget is None else budget - cost, acc)
            acc.pop()
    rec(n0, n1, None, bound, [])
    return out


def process_settings():
    import locale, decimal
    return {'recursionlimit': sys.getrecursionlimit(), 'cwd': os.getcwd(), 'locale': list(locale.getlocale()), 'decimal_precision': decimal.getcontext().prec}


def part_threads(sh, res):
    (i0, e0), (i1, e1) = sh['pair']
    n0, n1 = sh['points']
    lo, hi = sh['lo'], sh['hi']
    for bits in schedules(n0, n1, sh['bound'])[lo:hi]:
        slot = [None, None]
        before = process_settings()
        trace, pts = sched.run_schedule([threaded_body(i0, slot), threaded_body(i1, slot)], bits)
        after = process_settings()
        if after != before:
            # a query that saves / changes / restores a process-wide setting is not re-entrant: an interleaving can leave the setting changed for everything that runs later
            res.violation('process-wide-setting-left-changed', {'kind': 'threads', 'queries': [i0[0], i1[0]], 'instances': [i0, i1], 'schedule': trace}, before, after)
            sys.setrecursionlimit(before['recursionlimit'])
            os.chdir(before['cwd'])
        res.evaluations += 1
        res.traces += 1
        res.transitions += len(trace)
        switches = sum(1 for a, b in zip(trace, trace[1:]) if a != b)
        if switches >= 2:
            res.nontrivial += 1
        res.feat('max_preemptions_seen_%d' % min(switches, 9))
        for tid, (exp, inst) in enumerate(((e0, i0), (e1, i1))):
            if core.jsonable(slot[tid]) != exp:
                res.violation('interleaving-changes-result', {'kind': 'threads', 'queries': [i0[0], i1[0]], 'instances': [i0, i1], 'schedule': trace, 'victim': tid, 'victim_query': inst[0]}, exp, slot[tid])
        res.outcome(json.dumps(core.jsonable(slot), sort_keys=True)[:200])
    res.states += hi - lo
    sch = schedules(n0, n1, sh['bound'])[lo:hi]
    res.sample({'queries': [i0[0], i1[0]], 'points': [n0, n1], 'interleavings': hi - lo, 'preemption_bound': sh['bound'], 'one_schedule_thread_ids': sch[len(sch) // 2] if sch else []})


# ---------------------------------------------------------------- histories

def scenarios(which='main'):
    if which == 'shared':
        # one table object shared by every event of the history (None cells, a list-free rectangular table): no query may leave a trace in it
        Ts = [['k', None, 'x'], ['m', '2', 'y'], ['k', None, 'z']]
        Tn = [['k', '1'], ['m', '2']]
        return [
            ('select *', Ts, None, None, 'shared_csv'),
            ('select a1, a2 == None, NF, a3', Ts, None, None, 'shared'),
            ('select distinct count *', Ts, None, None, 'shared_csv'),
            ("update set a3 = a3 + '!'", Ts, None, None, 'shared'),
            ('select * except a1', Ts, None, None, 'shared_csv'),
            ('select a.*, NR order by a3 desc', Ts, None, None, 'shared_csv'),
            ('select *', Tn, None, ['name', 'val'], 'shared'),
            ("update set a.val = a.val + a.name", Tn, None, ['name', 'val'], 'shared'),
            ('select top 1 *', Ts, None, None, 'shared_csv'),
            ('select NR == 1, NR * 1.0, a1, NR', Ts, None, None, 'shared_csv'),          # True / 1.0 / 1 in one output and across outputs: equal as values, different as text
            ('select a1, first_time(a1), calls[0]', Ts, None, None, 'init'),
            ('select tag(a1), a2', Tn, None, None, 'initfile_v1'),
            ('select tag(a1), a2', Tn, None, None, 'initfile_v2'),
            ('select first_time(a2), a1 where first_time(a1)', Tn, None, None, 'init'),
        ]
    T0 = [['k', '1;2'], ['m', '3'], ['k', '4;5']]
    Tn = [['k', '2'], ['m', '10'], ['k', '3']]
    Ti = [['k', 2], ['m', 10], ['k', 3]]
    B = [['k', 'p'], ['k', 'q'], ['m', 'r']]
    return [
        ("select a1, a2 where like(a1, 'k%')", T0, None, None, 'defaults'),
        ('select a1, count(*), sum(a2) group by a1', Tn, None, None),
        ('select max(a2), avg(a2)', Ti, None, None),
        ('select a1, b2 join b on a1 == b1', T0, B, None, 'kw'),
        ("select like(a2, 'k%'), a1 where like(a1, 'k_') or like(a1, 'k')", [['k', 'km'], ['kx', 'k%'], ['m', 'k']], None, None),
        ("select a1, unnest(a2.split(';'))", T0, None, None),
        ("select a1 where a1 = 'x'", T0, None, None),
        ('select a1, sum(a2) group by a1', [['k', '2'], ['m', 'zz'], ['k', '3']], None, None),
        ("update set a2 = a1 + '!' where NR != 2", T0, None, None),
        ('select a.name, a["val"], a[\'val\']', [['k', '1'], ['m', '2']], None, ['name', 'val'], 'defaults'),
        ('select a.name, a["val"], a[\'val\']', [['k', '1'], ['m', '2']], None, ['val', 'name']),
        ('select avg(a2), variance(a2), a1 group by a1', Tn, None, None),
        ('select distinct count a1 order by a1 desc', T0, None, None),
        ('select unnest([a1]), unnest([a2])', T0, None, None),          # parsing error raised inside the main loop
        ("select " + ", ".join("like(a1, 'k%s%%')" % c for c in 'abcdefghij') + ", like(a2, '%_')", [['ka', 'x'], ['kj', ''], ['k', 'y']], None, None),     # ten distinct LIKE patterns
        ("select like(a1, 'ka%'), like(a1, 'kj%'), like(a2, '%_'), like(a1, 'k_')", [['kax', 'x'], ['kj', ''], ['ka', 'y']], None, None),
        ('select distinct count a.name, a2 + "!"', [['k', '1'], ['k', '1'], ['m', '2']], None, ['name', 'val']),       # full call style: the output header is observed (a shared leading-names list shows here)
        ('select a1, int(a2) order by a1 desc', [['k', '1'], ['m', 'bad'], ['k', '3']], None, None),      # fails at record 2 with rows already buffered for sorting
        ('select a2, a1 order by a2', [['k', '7'], ['m', '5']], None, None),
        ('select a["val"], NR', [['k', '1'], ['m', '2']], None, ['name', 'val'], 'kw'),
        ('select a["val"], NR', [['k', '1'], ['m', '2']], None, ['name', 'other']),          # alone: No "val" field at record 1
        ('select min(a2), max(a2), sum(a2), avg(a2), variance(a2), median(a2)', Tn, None, None),
        ('select min(a2), max(a2), sum(a2), avg(a2), variance(a2), median(a2)', [['k', 1.5], ['m', 2.75], ['k', -4.25]], None, None),
        ('select min(a2), max(a2), sum(a2), avg(a2), variance(a2), median(a2)', [['k', '0.5'], ['m', '2'], ['k', '2.25']], None, None),
        ('select min(a2), max(a2), sum(a2), avg(a2), variance(a2), median(a2)', Ti, None, None),
    ]


def module_digest():
    eng, rc = tree.engine(), tree.csvmod()
    parts = []
    for mod in (eng, rc):
        for name in sorted(vars(mod)):
            v = getattr(mod, name)
            if isinstance(v, (bool, int, float, str, type(None))) and not name.startswith('__'):
                parts.append('%s.%s=%r' % (mod.__name__, name, v))
            elif isinstance(v, (list, dict, set)) and not name.startswith('__'):
                parts.append('%s.%s=%s' % (mod.__name__, name, hashlib.md5(repr(v).encode()).hexdigest()[:8]))
    return hashlib.md5('|'.join(parts).encode()).hexdigest()[:12]


def explore(history, depth, S, fresh, summary):
    """DFS over the history tree; every node is executed in a forked child of the process that holds the history's state"""
    for ei in range(len(S)):
        r, w = os.pipe()
        pid = os.fork()
        if pid == 0:
            os.close(r)
            sub = {'nodes': 1, 'edges': 1, 'viol': [], 'digests': {}}
            try:
                got = solo(*S[ei])
                sub['digests'][module_digest()] = 1
                if got != fresh[ei]:
                    sub['viol'].append({'history': history + [ei], 'expected': fresh[ei], 'observed': got})
                if depth > 1:
                    explore(history + [ei], depth - 1, S, fresh, sub)
            except BaseException:
                sub['viol'].append({'history': history + [ei], 'expected': 'no harness exception', 'observed': traceback.format_exc()[-500:]})
            sub['viol'] = sub['viol'][:5]
            data = json.dumps(sub).encode()
            with os.fdopen(w, 'wb') as f:
                f.write(data)
            os._exit(0)
        os.close(w)
        with os.fdopen(r, 'rb') as f:
            data = f.read()
        os.waitpid(pid, 0)
        sub = json.loads(data.decode()) if data else {'nodes': 0, 'edges': 0, 'viol': [{'history': history + [ei], 'expected': 'child result', 'observed': 'child died'}], 'digests': {}}
        summary['nodes'] += sub['nodes']
        summary['edges'] += sub['edges']
        summary['viol'].extend(sub['viol'])
        for d in sub['digests']:
            summary['digests'][d] = 1


def part_history(sh, res):
    S = scenarios(sh.get('which', 'main'))
    fresh = sh['fresh']
    prefix = sh['prefix']
    # bring this worker's interpreter into the state reached by the prefix (each prefix node is judged by the shard that owns it)
    summary = {'nodes': 0, 'edges': 0, 'viol': [], 'digests': {}}
    import tempfile, shutil
    INIT_DIR[0] = tempfile.mkdtemp(prefix='vfc16i.', dir='/dev/shm' if os.path.isdir('/dev/shm') else None)      # shared by every (sequentially run) forked node of this shard
    r, w = os.pipe()
    pid = os.fork()
    if pid == 0:
        os.close(r)
        try:
            for k, ei in enumerate(prefix):
                got = solo(*S[ei])
                if sh['judge_prefix'] and k == len(prefix) - 1:
                    summary['nodes'] += 1
                    summary['edges'] += 1
                    if got != fresh[ei]:
                        summary['viol'].append({'history': prefix[:k + 1], 'expected': fresh[ei], 'observed': got})
            if sh['depth'] > 0:
                explore(list(prefix), sh['depth'], S, fresh, summary)
        except BaseException:
            summary['viol'].append({'history': prefix, 'expected': 'no harness exception', 'observed': traceback.format_exc()[-500:]})
        summary['viol'] = summary['viol'][:5]
        with os.fdopen(w, 'wb') as f:
            f.write(json.dumps(summary).encode())
        os._exit(0)
    os.close(w)
    with os.fdopen(r, 'rb') as f:
        data = f.read()
    os.waitpid(pid, 0)
    shutil.rmtree(INIT_DIR[0], ignore_errors=True)
    INIT_DIR[0] = None
    summary = json.loads(data.decode())
    res.states += summary['nodes']
    res.transitions += summary['edges']
    res.evaluations += summary['nodes']
    res.traces += summary['nodes']
    res.nontrivial += summary['nodes'] if len(prefix) >= 1 else 0
    res.feat('history_nodes' if sh.get('which', 'main') == 'main' else 'shared_table_history_nodes', summary['nodes'])
    for d in summary['digests']:
        res.outcome('module-state:' + d)
    for v in summary['viol']:
        res.violation('history-changes-result', {'kind': 'history', 'which': sh.get('which', 'main'), 'history': v['history'], 'queries': [S[i][0] for i in v['history']]}, v['expected'], v['observed'])
    res.sample({'history_prefix': [S[i][0] for i in prefix], 'subtree_depth': sh['depth']})


def run_shard(sh):
    res = core.Result()
    {'threads': part_threads, 'history': part_history}[sh['part']](sh, res)
    return res


def count_points(inst):
    slot = [None, None]
    trace, pts = sched.run_schedule([threaded_body(inst, slot), lambda b, t: None], [0] * 1000)
    return pts[0] + 1      # + the start point


def main(tier, seed):
    t0 = time.time()
    plan = [(2, 3), (3, 2)] if tier == 'quick' else [(2, None), (3, 4), (4, 3)]     # (records per table, preemption bound; None = every interleaving)
    shards = []
    npairs = 0
    total_interleavings = 0
    for nrec, bound in plan:
        K = kinds(nrec)
        names = sorted(K)
        insts = [K[k][0] for k in names] + [K[k][1] for k in names]
        fresh = fresh_outcomes(insts)
        f0 = dict(zip(names, fresh[:len(names)]))
        f1 = dict(zip(names, fresh[len(names):]))
        for a in range(len(names)):
            for b in range(a, len(names)):
                ka, kb = names[a], names[b]
                i0, i1 = K[ka][0], K[kb][1]
                n0, n1 = count_points(i0), count_points(i1)
                tot = len(schedules(n0, n1, bound))
                npairs += 1
                total_interleavings += tot
                for lo, hi in core.chunks(tot, max(1, tot // 1500)):
                    shards.append({'part': 'threads', 'pair': [(i0, f0[ka]), (i1, f1[kb])], 'points': (n0, n1), 'lo': lo, 'hi': hi, 'bound': bound})
    S = scenarios()
    hfresh = fresh_outcomes(S)
    depth = 4 if tier == 'thorough' else 3       # 25^4 = 390k forked nodes (depth 5 = 9.8M nodes was run once: silent, 80 minutes)
    pre = 2
    shards.append({'part': 'history', 'prefix': [], 'depth': 0, 'fresh': hfresh, 'judge_prefix': False})
    for a in range(len(S)):
        shards.append({'part': 'history', 'prefix': [a], 'depth': 0, 'fresh': hfresh, 'judge_prefix': True})
        for b in range(len(S)):
            shards.append({'part': 'history', 'prefix': [a, b], 'depth': depth - pre, 'fresh': hfresh, 'judge_prefix': True})
    S2 = scenarios('shared')
    sfresh = fresh_outcomes(S2)
    sdepth = 5 if tier == 'thorough' else 4
    shards.append({'part': 'history', 'which': 'shared', 'prefix': [], 'depth': 0, 'fresh': sfresh, 'judge_prefix': False})
    for a in range(len(S2)):
        shards.append({'part': 'history', 'which': 'shared', 'prefix': [a], 'depth': 0, 'fresh': sfresh, 'judge_prefix': True})
        for b in range(len(S2)):
            shards.append({'part': 'history', 'which': 'shared', 'prefix': [a, b], 'depth': sdepth - pre, 'fresh': sfresh, 'judge_prefix': True})
    res = core.run_shards('vf.checks.c16', shards)
    return core.finish(PID, tier, seed, res, t0,
        rule='threads: all unordered pairs of 14 query kinds (same-kind pairs with different data) x every interleaving of their scheduling points (start, each get_record on input and join table, each write, finish) within the preemption bound, plan (records, bound) = %r; '
             'histories: the complete tree of sequences of <= %d events over 25 scenarios, every node a forked live interpreter; a second tree of sequences of <= %d events over 14 scenarios that all run on the SAME caller-owned table objects (None cells, CSV and table writers); states = interleavings + history nodes, transitions = baton grants + history edges; '
             'non-trivial = schedules with >= 2 context switches / histories of length >= 1' % (plan, depth, sdepth),
        assumptions=['scheduling points are exactly the points the property names; code between them runs atomically', 'the solo outcome is computed in a fresh python subprocess per query'],
        extra={'pairs': npairs, 'interleavings': total_interleavings, 'history_depth': depth, 'plan_records_and_preemption_bound': [[n, ('all' if b is None else b)] for n, b in plan]},
        min_features={'history_nodes': 1000, 'shared_table_history_nodes': 1000})


def replay(rep):
    c = rep['case']
    if c.get('kind') == 'threads' and 'instances' in c:
        insts = [tuple(i) for i in c['instances']]
        fresh = fresh_outcomes(insts)
        slot = [None, None]
        trace, pts = sched.run_schedule([threaded_body(insts[0], slot), threaded_body(insts[1], slot)], c['schedule'])
        bad = 0
        for tid in (0, 1):
            same = core.jsonable(slot[tid]) == fresh[tid]
            print('query %d: %s\n  alone      : %s\n  interleaved: %s\n  %s' % (tid, insts[tid][0], fresh[tid], core.jsonable(slot[tid]), 'same' if same else 'DIFFERENT'))
            bad += 0 if same else 1
        print('schedule:', trace)
        return 1 if bad else 0
    if c.get('kind') == 'history':
        S = scenarios(c.get('which', 'main'))
        fresh = fresh_outcomes([S[i] for i in c['history']])
        got = None
        for k, ei in enumerate(c['history']):
            got = solo(*S[ei])
            print('step %d: %s -> %s' % (k + 1, S[ei][0], got))
        print('last event alone in a fresh interpreter:', fresh[-1])
        return 0 if got == fresh[-1] else 1
    print('re-run the check; case:', c)
    return 0
