"""C01 - SELECT/WHERE yields exactly the projected matching records, in input order.

Space: select lists of <= 2 (quick) / <= 3 (thorough) items over a 14-kind vocabulary x 6 WHERE forms, over the
prefix-closed tree of all tables of <= 2 / <= 3 rows from a ragged row alphabet, plus one de Bruijn table per
query (every window of 2 / 3 consecutive rows, i.e. non-initial engine states); EXCEPT forms; a JOIN slice
(INNER/LEFT x four B tables). Oracle: RefQL outcome (records or error class + record number), fresh output rows,
untouched sources.
"""
import time, itertools
from vf import core, refql, qcheck, alphabet

PID = 'C01'


def vocab(seed):
    k, m = alphabet.words(seed, 2)
    F = lambda t, i: ('f', t, i)
    items = [F('a', 1), F('a', 2), F('a', 3), ('NR',), ('NF',), ('lit', "x,\ty$&$$\t\t$`", None, 'raw'), ('cat', F('a', 1), ('lit', 'x')),
             ('arith', '+', ('arith', '*', ('NR',), ('int', 2)), ('NF',)), ('star', None), ('star', 'a'), ('list', F('a', 1), F('a', 2)),
             ('unnest', ('split', F('a', 2), ';')), ('unnest', ('list', F('a', 1), F('a', 2))), ('unnest', ('list',))]
    wheres = [None, ('cmp', '==', F('a', 1), ('lit', k)), ('cmp', '>', ('NR',), ('int', 1)), ('cmp', '==', ('NF',), ('int', 2)), ('like', F('a', 1), k[0] + '%'), ('cmp', '!=', F('a', 1), ('lit', "$'$&"))]
    rows = [[], [k], [None], [k, m], [m, k + ';' + m], [k, None], [m, k, k + ';' + m], [None, k + ';' + m, m]]
    jitems = [F('a', 1), F('b', 1), F('b', 2), ('NR',), ('NF',), ('bNR',), ('star', None), ('star', 'a'), ('star', 'b'), ('lit', 'x'),
              ('unnest', ('list', F('a', 1), F('b', 2))), ('unnest', ('split', F('a', 2), ';'))]
    jwheres = [None, ('cmp', '==', F('b', 2), ('lit', 'p')), ('cmp', '>', ('NR',), ('int', 1))]
    jrows = [[k], [m], [k, m], [m, k + ';' + m], []]
    Bs = [[], [[k, 'p']], [[k, 'p'], [k, 'q'], [m]], [[m, 'p', 'z'], [k]]]
    return dict(items=items, wheres=wheres, rows=rows, jitems=jitems, jwheres=jwheres, jrows=jrows, Bs=Bs, k=k, m=m)


def item_lists(items, maxn):
    for n in range(1, maxn + 1):
        for tup in itertools.product(items, repeat=n):
            if sum(1 for it in tup if it[0] == 'unnest') <= 1:
                yield list(tup)


def queries(tier, seed):
    v = vocab(seed)
    maxn = 3 if tier == 'thorough' else 2
    qs = []
    for lst in item_lists(v['items'], maxn):
        for w in v['wheres']:
            qs.append(('plain', {'kind': 'select', 'items': lst, 'where': w, 'join': None}))
    for ex in ([('f', 'a', 1)], [('f', 'a', 2)], [('f', 'a', 1), ('f', 'a', 3)], [('f', 'a', 3), ('f', 'a', 1)], [('f', 'a', 1), ('f', 'a', 1, 'a[N]'), ('f', 'a', 2)], [('f', 'a', 2), ('f', 'a', 3), ('f', 'a', 2)]):
        for w in v['wheres']:
            qs.append(('plain', {'kind': 'select', 'items': [('star', None)], 'except_cols': ex, 'where': w, 'join': None}))
    for lst in item_lists(v['jitems'], 2 if tier == 'quick' else 2):
        for w in v['jwheres']:
            for jt in ('INNER JOIN', 'LEFT JOIN'):
                qs.append(('join', {'kind': 'select', 'items': lst, 'where': w, 'join': {'type': jt, 'keys': [(('f', 'a', 1), ('f', 'b', 1))]}}))
    # beyond the item bound: a few fixed lists of 4-6 items (scale probes; every kind appears, one UNNEST at most)
    it_ = v['items']
    for lst in ([it_[0], it_[1], it_[3], it_[4]], [it_[8], it_[0], it_[5], it_[9], it_[2]], [it_[3], it_[11], it_[0], it_[1], it_[2], it_[7]], [it_[6], it_[6], it_[10], it_[12], it_[4]],
                [it_[1]] * 6, [it_[9], it_[8], it_[9], it_[0]]):
        for w in v['wheres'][:3]:
            qs.append(('plain', {'kind': 'select', 'items': list(lst), 'where': w, 'join': None}))
    # the documented unpack item (`SELECT *a1.split(':')`, JS `...a1.split(':')`): a list's elements become that many output fields, so records vary in width
    U = ('unpack', ('split', ('f', 'a', 2), ';'))
    for lst in ([U], [('f', 'a', 1), U], [U, ('NR',)], [U, U], [('f', 'a', 1), ('unpack', ('list', ('f', 'a', 1), ('f', 'a', 2))), ('f', 'a', 2)], [('star', None), U]):
        for w in v['wheres'][:3]:
            qs.append(('plain', {'kind': 'select', 'items': list(lst), 'where': w, 'join': None}))
    # wide rows: two-digit field numbers (a10, a11, a12) in items and EXCEPT lists
    for ex in ([('f', 'a', 3), ('f', 'a', 11)], [('f', 'a', 11), ('f', 'a', 2), ('f', 'a', 10)], [('f', 'a', 12)], [('f', 'a', 1), ('f', 'a', 10, 'a[N]')],
               [('f', 'a', 2), ('f', 'a', 4), ('f', 'a', 6), ('f', 'a', 8)], [('f', 'a', 12), ('f', 'a', 1), ('f', 'a', 7), ('f', 'a', 3), ('f', 'a', 9)]):
        qs.append(('wide', {'kind': 'select', 'items': [('star', None)], 'except_cols': ex, 'where': None, 'join': None}))
    for lst in ([('f', 'a', 10), ('f', 'a', 1)], [('f', 'a', 11, 'a[N]'), ('f', 'a', 12), ('f', 'a', 13)], [('cat', ('f', 'a', 1), ('f', 'a', 10)), ('f', 'a', 2)]):
        qs.append(('wide', {'kind': 'select', 'items': lst, 'where': ('cmp', '!=', ('f', 'a', 12), ('lit', 'zz')), 'join': None}))
    if tier == 'thorough':
        for lst in item_lists(v['jitems'], 3):
            if len(lst) == 3:
                qs.append(('join', {'kind': 'select', 'items': lst, 'where': None, 'join': {'type': 'LEFT JOIN', 'keys': [(('f', 'a', 1), ('f', 'b', 1))]}}))
    return v, qs


def diagnose(q, A, B, exp, got, why):
    if q.get('join') is not None and any(it[0] == 'unnest' for it in q['items']) and got['error'] is not None \
            and got['error'][0] == 'parsing' and 'UNNEST' in got['error'][2] and qcheck.multi_match(q, A, B):
        return 'F1:unnest-with-multi-match-join'
    return 'select-mismatch'


def nontrivial(q, A, exp):
    if exp.error is not None or not exp.records:
        return False
    if q.get('where') is not None and len(exp.records) < len(A):
        return True
    for it in q['items']:
        if it[0] in ('star', 'unnest'):
            return True
        if it[0] == 'f' and any(len(r) < it[2] for r in A):
            return True
    return q.get('except_cols') is not None


def run_shard(sh):
    res = core.Result()
    v, qs = queries(sh['tier'], sh['seed'])
    maxrows = 3 if sh['tier'] == 'thorough' else 2
    plain_tables = list(qcheck.tables_upto(v['rows'], maxrows))
    plain_long = qcheck.long_table(v['rows'], maxrows)
    join_tables = list(qcheck.tables_upto(v['jrows'], maxrows))
    join_long = qcheck.long_table(v['jrows'][:4], maxrows)
    jscases = []
    for kind, q in qs[sh['lo']:sh['hi']]:
        text = refql.render(q)
        if kind == 'wide':
            w12 = [['c%d' % i for i in range(1, 13)], ['d%d' % i for i in range(1, 13)], ['e%d' % i for i in range(1, 12)]]
            cases = [(T, None) for T in qcheck.tables_upto(w12, 2)]
        elif kind == 'plain':
            cases = [(T, None) for T in plain_tables] + [(plain_long, None)]
        else:
            cases = [(T, B) for B in v['Bs'] for T in join_tables] + [(join_long, B) for B in v['Bs']]
        i = 0
        while i < len(cases):
            A, B = cases[i]
            i += 1
            exp, got, why = qcheck.run_case(res, q, A, B, diagnose=diagnose, text=text)
            jscases.append((q, A, B, None, None))
            res.states += 1
            res.transitions += 1 if A else 0
            if len(A) > maxrows:
                res.feat('long_tables')
                if exp.error is not None and exp.error[1] and exp.error[1] > 1:
                    cases.append((A[:exp.error[1] - 1], B))   # also the longest error-free prefix
            if why is None:
                if nontrivial(q, A, exp):
                    res.nontrivial += 1
                if exp.error is not None:
                    res.feat('ref_error_cases')
                elif kind == 'join' and qcheck.multi_match(q, A, B):
                    res.feat('join_multi_match')
                if exp.records and any(it[0] == 'unnest' for it in q['items']):
                    res.feat('unnest_nonempty')
            res.outcome(repr((exp.records, exp.error))[:60])
        if (sh['lo'] * 7 + len(res.samples)) % 5 == 0 and len(res.samples) < 2:
            res.sample({'query': text, 'tables': len(cases)})
    qcheck.run_js_cases(res, jscases, diagnose)      # the JS twin on the language-neutral cases
    return res


def main(tier, seed):
    t0 = time.time()
    v, qs = queries(tier, seed)
    shards = [{'tier': tier, 'seed': seed, 'lo': lo, 'hi': hi} for lo, hi in core.chunks(len(qs), 128)]
    res = core.run_shards('vf.checks.c01', shards)
    return core.finish(PID, tier, seed, res, t0,
        rule='all select lists up to the item bound over the 14-kind vocabulary (at most one UNNEST) x 5 WHERE forms x all tables up to the row bound over an 8-row ragged alphabet '
             '(cells: two words, a ;-joined word, None; widths 0-3) + one de Bruijn table per query; EXCEPT forms; JOIN slice (INNER/LEFT, 4 B tables incl. duplicate keys and ragged rows). '
             'states = (query, table) nodes of the prefix-closed table tree, transitions = row-append edges; non-trivial = non-empty reference output and (WHERE rejects a record or a star/EXCEPT/UNNEST expands or a field lies beyond the row)',
        assumptions=['RefQL (vf/refql.py) is the statement of the relational semantics', 'expressions come from a closed vocabulary; a Python exception raised by the reference on record k means "query fails at record k"'],
        extra={'queries': len(qs), 'bounds': {'items': 3 if tier == 'thorough' else 2, 'rows': 3 if tier == 'thorough' else 2}},
        min_features={'ref_error_cases': 100, 'unnest_nonempty': 100, 'long_tables': 100})


def replay(rep):
    return qcheck.replay_case(rep)
