"""C08 - query meaning is invariant under spelling; string literals are opaque.

Part A: ~45 structurally different base queries (every clause and join kind, SELECT and UPDATE, with and without header) x all clause permutations x all
subsets of size <= 2 (quick) / <= 3, and all 2^13 subsets for the 12 smallest bases (thorough), of 13 spelling transformations (keyword case lower/mixed, doubled inner spaces,
tab / newline separators, comment lines before/between/after, trailing semicolon, aN <-> a[N], TOP <-> LIMIT, JOIN <-> INNER JOIN / LEFT <-> LEFT OUTER,
= <-> ==, swapped ON sides, FROM a / UPDATE a SET, explicit ASC). Oracle: identical outcome to the canonical spelling (which C01-C05 tie to RefQL).
Part B: literal contents = all sequences of <= 2 (quick) / <= 3 (thorough) tokens over a 33-token alphabet of keywords and metacharacters, both quote styles,
at 4 positions (select item, WHERE comparand, UPDATE right-hand side, ORDER BY key), with and without header. Oracle: RefQL with the literal as an opaque value.
"""
import time, itertools
from vf import core, refql, qcheck, drive, alphabet, tree

PID = 'C08'
F = lambda t, i, *st: ('f', t, i) + tuple(st)


def bases(seed):
    k, m = alphabet.words(seed, 2)
    S = lambda **kw: dict({'kind': 'select', 'where': None, 'join': None, 'order': None, 'distinct': None, 'top': None, 'group': None}, **kw)
    J = lambda t, keys=None: {'type': t, 'keys': keys or [(F('a', 1), F('b', 1))]}
    w1 = ('cmp', '==', F('a', 1), ('lit', k))
    w2 = ('cmp', '!=', F('a', 2), ('lit', m))
    qs = [
        S(items=[F('a', 1), F('a', 2)], where=w1),
        S(items=[F('a', 2)], where=w2, order={'keys': [F('a', 1)], 'desc': True}, top=('TOP', 2)),
        S(items=[F('a', 1)], distinct='distinct', order={'keys': [F('a', 1)], 'desc': False}),
        S(items=[F('a', 1), F('a', 2)], distinct='count', top=('LIMIT', 2)),
        S(items=[('star', None)], where=w1, top=('LIMIT', 1)),
        S(items=[F('a', 1)], top=('LIMIT', 0)), S(items=[F('a', 1), F('a', 2)], where=w2, top=('TOP', 0), order={'keys': [F('a', 1)], 'desc': False}),
        S(items=[F('a', 1), F('b', 2)], join=J('JOIN'), where=w2),
        S(items=[F('a', 1), F('b', 2)], join=J('INNER JOIN'), order={'keys': [F('b', 2)], 'desc': True}, top=('TOP', 3)),
        S(items=[('star', None)], join=J('LEFT JOIN')),
        S(items=[F('a', 2), ('bNR',)], join=J('LEFT OUTER JOIN'), where=w1),
        S(items=[F('a', 1), F('b', 1)], join=J('STRICT LEFT JOIN', [(F('a', 2), F('b', 1))])),
        S(items=[F('a', 1), F('b', 2)], join=J('JOIN', [(F('a', 1), F('b', 1)), (F('a', 2), F('b', 1))])),
        S(items=[F('a', 1), F('b', 2), ('bNR',)], join=J('LEFT JOIN', [(F('a', 1), F('b', 1)), (F('a', 1), F('b', 1)), (F('a', 1), F('b', 1))])),      # three key pairs: the orders of the sides can be mixed
        S(items=[F('a', 1), ('agg', 'COUNT', 'U', ('star', None))], group=[F('a', 1)], where=w2, top=('LIMIT', 5)),
        S(items=[('agg', 'ARRAY_AGG', 'U', F('a', 2)), ('agg', 'COUNT', 'U', ('star', None))], group=[F('a', 1)], join=J('JOIN')),
        S(items=[('star', None)], except_cols=[F('a', 2)], where=w1),
        S(items=[F('a', 1), ('unnest', ('split', F('a', 2), 'o'))], where=w1, top=('TOP', 3)),
        S(items=[('alias', F('a', 1), 'first', 'AS'), ('cat', F('a', 2), ('lit', 'z'))], order={'keys': [F('a', 2), F('a', 1)], 'desc': False}),
        S(items=[('NR',), ('NF',), F('a', 3)], where=('or', ('cmp', '>', ('NR',), ('int', 1)), ('like', F('a', 1), k[0] + '%'))),
        {'kind': 'update', 'assign': [(F('a', 2), ('lit', 'U'))], 'where': w1, 'join': None},
        {'kind': 'update', 'assign': [(F('a', 1), F('a', 2)), (F('a', 2), F('a', 1))], 'where': None, 'join': None},
        {'kind': 'update', 'assign': [(F('a', 2), F('b', 2))], 'where': w1, 'join': J('JOIN')},
        {'kind': 'update', 'assign': [(F('a', 2), ('cat', F('a', 1), F('b', 2)))], 'where': None, 'join': J('LEFT JOIN')},
    ]
    named = [
        (S(items=[('named', 'a', 'name', 'attr'), ('named', 'a', 'val', 'dq')], where=('cmp', '==', ('named', 'a', 'name', 'attr'), ('lit', k)), order={'keys': [F('a', 2)], 'desc': True})),
        (S(items=[F('a', 1), ('named', 'b', 'jv', 'attr')], join=J('JOIN', [(F('a', 1), F('b', 1))]), top=('LIMIT', 2))),
        ({'kind': 'update', 'assign': [(('named', 'a', 'val', 'attr'), ('lit', 'U'))], 'where': ('cmp', '>', ('NR',), ('int', 1)), 'join': None}),
    ]
    A = [[k, m + 'o' + k], [m, k], [k, k + 'o'], [m, m]]
    A = [r + ['c%d_%d' % (i, j) for j in range(3, 13)] for i, r in enumerate(A)]       # 12 columns: two-digit field numbers are available to every base query
    qs.append(S(items=[F('a', 10), F('a', 12), F('a', 1)], where=('cmp', '!=', F('a', 11), ('lit', 'zz')), order={'keys': [F('a', 10)], 'desc': True}))
    qs.append({'kind': 'update', 'assign': [(F('a', 11), F('a', 1)), (F('a', 2), F('a', 12)), (F('a', 10), ('lit', 'W'))], 'where': w1, 'join': None})
    B = [[k, 'p'], [m, 'q'], [m, 'r']]
    return qs, named, A, B


TRANSFORMS = ['lower', 'mixed', 'dspace', 'manyspaces', 'tabsep', 'nlsep', 'c_before', 'c_between', 'c_after', 'semicolon', 'bracket_fields', 'toplimit', 'joinalt', 'eqsingle', 'swapon', 'from_a', 'asc', 'swapodd', 'dsep', 'tabsp', 'parenpad']


def apply(subset, q):
    kw = {}
    for t in subset:
        if t == 'lower': kw['kwcase'] = 'lower'
        elif t == 'mixed': kw['kwcase'] = 'mixed'
        elif t == 'dspace': kw['inner_space'] = '  '
        elif t == 'manyspaces':
            kw['inner_space'] = '     '
            kw['list_sep'] = ',      '
            kw['assign_eq'] = '     =     '
        elif t == 'tabsep': kw['sep'] = '\t'
        elif t == 'nlsep': kw['sep'] = '\n'
        elif t == 'dsep': kw['sep'] = '   '          # runs of blanks BETWEEN clauses (after DESC / ASC, after the last list item)
        elif t == 'tabsp': kw['sep'] = '\t '
        elif t == 'parenpad': kw['paren_pad'] = '  '
        elif t == 'c_before': kw['comment'] = 'before'
        elif t == 'c_between': kw['comment'] = 'between'
        elif t == 'c_after': kw['comment'] = 'after'
        elif t == 'semicolon': kw['semicolon'] = True
        elif t == 'bracket_fields': kw['field_style'] = 'a[N]'
        elif t == 'toplimit':
            if q['kind'] == 'select' and q.get('top'):
                kw['top_style'] = 'LIMIT' if q['top'][0] == 'TOP' else 'TOP'
        elif t == 'joinalt': kw['join_alt'] = True
        elif t == 'eqsingle': kw['eq_single'] = True
        elif t == 'swapon': kw['swap_on'] = True
        elif t == 'swapodd': kw['swap_on'] = 'odd'
        elif t == 'from_a': kw['from_a'] = True
        elif t == 'asc': kw['asc_explicit'] = True
    return kw


def conflicting(subset):
    s = set(subset)
    if 'lower' in s and 'mixed' in s: return True
    if 'swapon' in s and 'swapodd' in s: return True
    if 'dspace' in s and 'manyspaces' in s: return True
    if len(s & {'tabsep', 'nlsep', 'dsep', 'tabsp'}) > 1: return True
    if len(s & {'c_before', 'c_between', 'c_after'}) > 1: return True
    if 'c_between' in s and (s & {'tabsep', 'nlsep', 'dsep', 'tabsp'}): return True
    return False


def clause_names(q, from_a):
    text_clauses = []
    if q['kind'] == 'select':
        if from_a: text_clauses.append('from')
        if q.get('top') and q['top'][0] == 'LIMIT': text_clauses.append('limit')
        if q.get('except_cols') is not None: text_clauses.append('except')
    if q.get('join'): text_clauses.append('join')
    if q.get('where') is not None: text_clauses.append('where')
    if q.get('group') is not None: text_clauses.append('group')
    if q.get('order') is not None: text_clauses.append('order')
    return text_clauses


def outcome_key(got):
    return core.jsonable({'records': got['records'], 'header': got['header'], 'warnings': got['warnings'], 'error': got['error'][0] if got['error'] else None})


def part_spelling(sh, res):
    qs, named, A, B = bases(sh['seed'])
    allq = [(q, None, None) for q in qs] + [(q, ['name', 'val'], ['jk', 'jv']) for q in named]
    maxk = sh['maxk']
    jsbatch, jsmeta = [], []
    A_full = A
    for q, an, bn in allq[sh['lo']:sh['hi']]:
        A = [r[:2] for r in A_full] if an else A_full        # the named bases address a two-column header
        useB = B if q.get('join') else None
        canon_text = refql.render(q)
        canon = outcome_key(drive.run_py(canon_text, qcheck.copy_table(A), qcheck.copy_table(useB), an, bn if useB else None))
        exp = refql.evaluate(q, A, useB, an, bn if useB else None)
        why = qcheck.compare(exp, drive.run_py(canon_text, qcheck.copy_table(A), qcheck.copy_table(useB), an, bn if useB else None))
        if why:
            res.violation('canonical-query-vs-reference', {'query': canon_text, 'q': q, 'A': A, 'B': useB, 'a_names': an, 'b_names': bn if useB else None}, None, None, why)
        subsets = [()]
        full = sh.get('full_subsets') and (sh['lo'] + allq[sh['lo']:sh['hi']].index((q, an, bn))) in sh['full_subsets']
        ks = range(1, len(TRANSFORMS) + 1) if full else range(1, maxk + 1)
        for k_ in ks:
            for sub in itertools.combinations(TRANSFORMS, k_):
                if not conflicting(sub):
                    subsets.append(sub)
        for sub in subsets:
            kw = apply(sub, q)
            # the top/limit choice changes which clauses exist in the text
            q_eff = q
            top_style = kw.get('top_style')
            names = clause_names(q if not top_style else dict(q, top=(top_style, q['top'][1])), kw.get('from_a', False) and q['kind'] == 'select')
            perms = list(itertools.permutations(names)) if (len(sub) <= 2 and len(names) <= 4) else [tuple(names), tuple(reversed(names))]
            for perm in perms:
                sp = refql.Spelling(clause_perm=perm, **kw)
                text = refql.render(q, 'py', sp)
                got = outcome_key(drive.run_py(text, qcheck.copy_table(A), qcheck.copy_table(useB), an, bn if useB else None))
                res.evaluations += 1
                res.traces += 1
                res.states += 1
                res.transitions += len(sub) + 1
                if sub or perm != tuple(names):
                    res.nontrivial += 1
                if len(names) >= 2 and perm != tuple(names):
                    res.feat('clause_permutations')
                if len(sub) >= 2:
                    res.feat('composed_transformations')
                if exp.error is None and refql.evaluate_neutral(q, A, useB, an, bn if useB else None) is not None:
                    c = {'op': 'query', 'query': refql.render(q, 'js', sp), 'input': A}
                    if useB is not None:
                        c['join'] = useB
                    if an is not None:
                        c['input_names'] = an
                        if useB is not None:
                            c['join_names'] = bn
                    jsbatch.append(c)
                    jsmeta.append((canon_text, list(sub), list(perm), exp))
                if got != canon:
                    res.violation('spelling-changes-result', {'kind': 'spelling', 'canonical': canon_text, 'respelled': text, 'transformations': list(sub), 'clause_order': list(perm), 'A': A, 'B': useB, 'a_names': an},
                                  canon, got)
                res.outcome(repr(canon)[:60])
        res.sample({'canonical': canon_text, 'spellings_tried': len(subsets)})
    from vf import js
    if js.available() and jsbatch:
        outs = js.run_batch(jsbatch)
        for c, (canon_text, sub, perm, exp) in zip(jsbatch, jsmeta):
            pass
        for c, (canon_text, sub, perm, exp), out in zip(jsbatch, jsmeta, outs):
            got = qcheck.js_got(out)
            res.evaluations += 1
            res.traces += 1
            res.feat('js_spellings')
            why = qcheck.compare(exp, got)
            if why:
                res.violation('js:spelling-changes-result', {'kind': 'spelling-js', 'canonical': canon_text, 'respelled': c['query'], 'transformations': sub, 'clause_order': perm, 'A': c['input'], 'B': c.get('join')},
                              {'records': exp.records, 'header': exp.header}, {'records': got['records'], 'header': got['header'], 'error': got['error']}, why)


TOKENS = [' SELECT ', ' WHERE ', ' ORDER BY ', ' FROM a', ' JOIN ', ' LIMIT 1', 'TOP 1 ', 'DISTINCT ', ' EXCEPT ', ' with (header)', ' AS x', '*', '=', '==', '#', '//', ',', ';', 'a1', 'b2', 'a.zz', 'NR',
          '(', ']', 'UNNEST(', 'COUNT(*)', '___RBQL_STRING_LITERAL0___', '___RBQL_STRING_LITERAL1___', 'OTHERQ', 'SAMEQ', '\\', '\t', ' UPDATE ', ' GROUP BY ', '$&', '$$', "$'", '$`', '${a1}',
          '\x0b#', '\x0c', '\x1c', '\x85', '\u2028#']       # characters that str.splitlines() (but not split('\\n')) treats as line ends, two of them followed by the comment sign


def lit_raw(value, quote):
    """literal text with raw tabs (only backslash and the same quote are escaped)"""
    return quote + value.replace('\\', '\\\\').replace(quote, '\\' + quote) + quote


def part_literals(sh, res):
    k, m = alphabet.words(sh['seed'], 2)
    toks = TOKENS
    seqs = []
    for n in range(0, sh['maxtok'] + 1):
        for tup in itertools.product(range(len(toks)), repeat=n):
            seqs.append(tup)
    seqs = seqs[sh['lo']:sh['hi']]
    for tup in seqs:
        for quote in ("'", '"'):
            other = '"' if quote == "'" else "'"
            value = ''.join(other if toks[i] == 'OTHERQ' else (quote if toks[i] == 'SAMEQ' else toks[i]) for i in tup)
            lt = lit_raw(value, quote)
            A = [[k, value], [m, 'plain'], [k, value + 'x']]
            for hdr in (False, True):
                an = ['name', 'val'] if hdr else None
                cases = [
                    ('select', {'kind': 'select', 'items': [F('a', 1), ('lit', value)], 'where': None, 'join': None, 'order': None, 'distinct': None, 'top': None, 'group': None}, 'SELECT a1, %s' % lt),
                    ('where', {'kind': 'select', 'items': [F('a', 1), ('NR',)], 'where': ('cmp', '==', F('a', 2), ('lit', value)), 'join': None, 'order': None, 'distinct': None, 'top': None, 'group': None}, 'SELECT a1, NR WHERE a2 == %s' % lt),
                    ('update', {'kind': 'update', 'assign': [(F('a', 1), ('lit', value))], 'where': ('cmp', '>', ('NR',), ('int', 1)), 'join': None}, 'UPDATE SET a1 = %s WHERE NR > 1' % lt),
                    ('order', {'kind': 'select', 'items': [F('a', 1), ('lit', 'second')], 'where': None, 'join': None, 'order': {'keys': [('cat', ('lit', value), F('a', 1))], 'desc': True}, 'distinct': None, 'top': None, 'group': None},
                     "SELECT a1, 'second' ORDER BY %s + a1 DESC" % lt),
                ]
                cases.append(('select_first', {'kind': 'select', 'items': [('lit', value), ('lit', 'tail'), F('a', 1)], 'where': ('cmp', '!=', F('a', 2), ('lit', 'zzz')), 'join': None, 'order': None, 'distinct': None, 'top': None, 'group': None},
                              "SELECT %s, 'tail', a1 WHERE a2 != 'zzz'" % lt))
                if hdr and value and value != 'val' and not any(toks[i] == 'a.zz' for i in tup):
                    # the literal names a column: a[<literal>] in the select list and in EXCEPT (header = [literal content, 'val'])
                    style = 'sq' if quote == "'" else 'dq'
                    S0 = {'where': None, 'join': None, 'order': None, 'distinct': None, 'top': None, 'group': None}
                    cases.append(('column_name', dict(S0, kind='select', items=[('named', 'a', value, style), ('NR',)]), 'SELECT a[%s], NR' % refql.lit_text(value, quote)))
                    cases.append(('except_name', dict(S0, kind='select', items=[('star', None)], except_cols=[('named', 'a', value, style)]), 'SELECT * EXCEPT a[%s]' % refql.lit_text(value, quote)))
                for pos, q, text in cases:
                    if pos in ('column_name', 'except_name'):
                        an = [value, 'val']
                    elif hdr:
                        an = ['name', 'val']
                    if not (hdr and any(toks[i] == 'a.zz' for i in tup)) and '${' not in value and quote == "'":
                        sh.setdefault('_jscases', []).append((q, A, None, an, None))
                    exp = refql.evaluate(q, A, None, an, None)
                    got = drive.run_py(text, qcheck.copy_table(A), None, an, None)
                    res.evaluations += 1
                    res.traces += 1
                    res.states += 1
                    res.transitions += len(tup) + 1
                    if tup:
                        res.nontrivial += 1
                    why = qcheck.compare(exp, got)
                    if why:
                        sig = 'literal-not-opaque'
                        if hdr and any(toks[i] == 'a.zz' for i in tup) and got['error'] and got['error'][0] == 'parsing' and 'Unable to find column' in got['error'][2]:
                            sig = 'F7:attribute-like-text-in-literal-with-header'
                        res.violation(sig, {'kind': 'literal', 'position': pos, 'query': text, 'literal_value': value, 'quote': quote, 'has_header': hdr, 'a_names': an, 'A': A}, {'records': exp.records, 'error': exp.error},
                                      {'records': got['records'], 'error': got['error']}, why)
                    res.outcome(pos)
    qcheck.run_js_cases(res, sh.setdefault('_jscases', []), lambda *a: 'literal-not-opaque', tag='js')
    if seqs:
        res.sample({'literal_tokens': [toks[i] for i in seqs[len(seqs) // 2]], 'positions': ['select', 'where', 'update', 'order'], 'quotes': 2, 'header': 2})


def run_shard(sh):
    res = core.Result()
    {'spelling': part_spelling, 'literals': part_literals}[sh['part']](sh, res)
    return res


def main(tier, seed):
    t0 = time.time()
    T = tier == 'thorough'
    qs, named, A, B = bases(seed)
    n = len(qs) + len(named)
    shards = [{'part': 'spelling', 'seed': seed, 'lo': i, 'hi': i + 1, 'maxk': 3 if T else 2, 'full_subsets': [0, 2, 4, 7, 13, 17, 18] if T else []} for i in range(n)]
    maxtok = 3 if T else 2
    nseq = sum(len(TOKENS) ** k for k in range(0, maxtok + 1))
    for lo, hi in core.chunks(nseq, 96 if T else 32):
        shards.append({'part': 'literals', 'seed': seed, 'lo': lo, 'hi': hi, 'maxtok': maxtok})
    res = core.run_shards('vf.checks.c08', shards)
    return core.finish(PID, tier, seed, res, t0,
        rule='A: %d base queries x all subsets up to the size bound of 21 spelling transformations (conflicting pairs excluded) x all clause permutations (<= 4 clauses; order and its reverse otherwise), differential against the canonical spelling; '
             'B: all token sequences up to the length bound over a %d-token literal alphabet x 2 quote styles x 4 positions x header/no header against RefQL with the literal as an opaque value; non-trivial = a transformed spelling / a non-empty literal' % (n, len(TOKENS)),
        assumptions=['the canonical spelling is tied to RefQL by C01-C05 (and re-checked here for every base query)', 'literal text is written with backslash and same-quote escapes only, tabs raw'],
        extra={'bases': n, 'transformations': TRANSFORMS, 'literal_tokens': TOKENS},
        min_features={'clause_permutations': 1000, 'composed_transformations': 1000})


def replay(rep):
    c = rep['case']
    if c.get('kind') == 'spelling':
        a = drive.run_py(c['canonical'], qcheck.copy_table(c['A']), qcheck.copy_table(c['B']), c['a_names'], ['jk', 'jv'] if (c['B'] is not None and c['a_names']) else None)
        b = drive.run_py(c['respelled'], qcheck.copy_table(c['A']), qcheck.copy_table(c['B']), c['a_names'], ['jk', 'jv'] if (c['B'] is not None and c['a_names']) else None)
        print('canonical:', c['canonical'], '\n ->', outcome_key(a)); print('respelled:', repr(c['respelled']), '\n ->', outcome_key(b))
        return 0 if outcome_key(a) == outcome_key(b) else 1
    if c.get('kind') == 'literal':
        got = drive.run_py(c['query'], qcheck.copy_table(c['A']), None, c.get('a_names', ['name', 'val'] if c['has_header'] else None), None)
        print(c['query'], 'over columns', c.get('a_names'), '->', got['records'], got['error'])
        return 0
    return qcheck.replay_case(rep)
