"""C09 - column-name variables bind to the right column; the header line is never data; WITH overrides the caller's flag.

Names: all strings of length 1-2 over 16 atoms {x, Y, 7, _, space, ", ', backslash, [, ], tab, LF, ., #, comma, e-acute}; headers: EVERY ordered pair of distinct names
(each name at position 1 and 2 against every decoy - confusable pairs like x / 'x ' included), thorough adds triples over the nastiest names.
Queries: a["n"], a['n'] (name written as a canonical Python string literal by the checker's own escaper), a.n and - in direct mode - bare n for identifier-like
names; b-side through a JOIN; WHERE / UPDATE / EXCEPT positions. Backends: query_table (all pairs), query_csv on quoted_rfc files, pandas, sqlite (subsets).
Header never data: `select NR, a1` on every backend x tables of 0..2 rows. WITH: caller flag x 5 modifiers x {input, input + join file}, differential.
"""
import io, os, re, time, shutil, sqlite3, tempfile, itertools
from vf import core, tree, refql, refcsv, qcheck, drive

PID = 'C09'
ATOMS = ['x', 'Y', '7', '_', ' ', '"', "'", '\\', '[', ']', '\t', '\n', '.', '#', ',', 'é']
IDENT = re.compile(r'^[_a-zA-Z][_a-zA-Z0-9]*\Z')


def all_names(maxlen=2):
    out = []
    for n in range(1, maxlen + 1):
        for t in itertools.product(ATOMS, repeat=n):
            out.append(''.join(t))
    return out


def excluded(name):
    # names containing an a.ident / b.ident token are outside the quantifier (acknowledged limitation)
    return re.search(r'(?:^|[^_a-zA-Z0-9])[ab]\.[_a-zA-Z]', name) is not None


ROWS = [['c1r1', 'c2r1'], ['c1r2', 'c2r2'], ['c1r3', 'c2r3']]


def queries_for(name, pos, t='a'):
    """(label, text, expected column index) for one name at header position pos (0-based)"""
    out = [('dq', 'select %s[%s], NR' % (t, refql.lit_text(name, '"')), pos), ('sq', 'select %s[%s], NR' % (t, refql.lit_text(name, "'")), pos)]
    if IDENT.match(name):
        out.append(('attr', 'select %s.%s, NR' % (t, name), pos))
    return out


def judge(res, label, text, got, pos, case, rows=ROWS, with_nr=True):
    res.evaluations += 1
    res.traces += 1
    exp = [[r[pos]] + ([i + 1] if with_nr else []) for i, r in enumerate(rows)]
    ok = got['error'] is None and got['records'] is not None and [[str(v) if not isinstance(v, int) else v for v in r] for r in got['records']] == exp
    if not ok:
        # CSV / sqlite return NR as text
        if got['error'] is None and got['records'] is not None and [[str(v) for v in r] for r in got['records']] == [[str(v) for v in r] for r in exp]:
            ok = True
    if not ok:
        res.violation('name-binds-wrong-column', case, exp, {'records': got['records'], 'error': got['error']})
    return ok


def part_table(sh, res):
    names = [n for n in all_names() if not excluded(n)]
    lo, hi = sh['lo'], sh['hi']
    for i, n1 in enumerate(names):
        if not (lo <= i < hi):
            continue
        for n2 in names:
            if n1 == n2:
                continue
            for pos, hdr in ((0, [n1, n2]), (1, [n2, n1])):
                for label, text, p in queries_for(n1, pos):
                    got = drive.run_py(text, qcheck.copy_table(ROWS), None, hdr, None)
                    res.states += 1
                    res.transitions += 1
                    if judge(res, label, text, got, p, {'backend': 'table', 'header': hdr, 'query': text}):
                        if not IDENT.match(n1):
                            res.nontrivial += 1
                        res.feat('table_' + label)
    res.sample({'backend': 'query_table', 'header': [names[lo], names[(lo + 7) % len(names)]], 'queries': [q[1] for q in queries_for(names[lo], 0)]})


def part_table_js(sh, res):
    """the same all-pairs exploration through rbql-js query_table"""
    from vf import js
    if not js.available():
        res.feat('js_skipped')
        return
    names = [n for n in all_names() if not excluded(n)]
    lo, hi = sh['lo'], sh['hi']
    batch, meta = [], []
    for i, n1 in enumerate(names):
        if not (lo <= i < hi):
            continue
        for n2 in names:
            if n1 == n2:
                continue
            for pos, hdr in ((0, [n1, n2]), (1, [n2, n1])):
                for label, text, p in queries_for(n1, pos):
                    batch.append({'op': 'query', 'query': text, 'input': ROWS, 'input_names': hdr})
                    meta.append((label, text, p, hdr))
    outs = js.run_batch(batch)
    for (label, text, p, hdr), out in zip(meta, outs):
        got = qcheck.js_got(out)
        res.states += 1
        res.transitions += 1
        if judge(res, label, text, got, p, {'backend': 'js-table', 'header': hdr, 'query': text}):
            res.feat('js_table_' + label)
            if not IDENT.match(hdr[p]):
                res.nontrivial += 1
    res.sample({'backend': 'rbql-js query_table', 'queries': len(batch)})


def subset_pairs(full):
    names = [n for n in all_names() if not excluded(n)]
    singles = names[:len(ATOMS)]
    pairs = [(a, b) for a in singles for b in singles if a != b]
    doubles = names[len(ATOMS):]
    decoys = ['x', ' ', '"']
    step = 1 if full else 3
    for k, n in enumerate(doubles):
        if k % step:
            continue
        for d in decoys:
            if d != n:
                pairs.append((n, d))
        # the confusable partner: same name with one character changed / dropped
        if n[:1] != n:
            pairs.append((n, n[:1]))
        pairs.append((n, n[::-1])) if n[::-1] != n else None
    return pairs


def part_backends(sh, res):
    rb = tree.load()
    eng = tree.engine()
    from rbql import rbql_sqlite
    import pandas as pd
    base = '/dev/shm' if os.path.isdir('/dev/shm') else tempfile.gettempdir()
    scratch = tempfile.mkdtemp(prefix='vfc09.', dir=base)
    try:
        pairs = subset_pairs(sh['full'])[sh['lo']:sh['hi']]
        p1, p2, po = [os.path.join(scratch, n) for n in ('t1.csv', 't2.csv', 'out.csv')]
        for n1, n2 in pairs:
            for pos, hdr in ((0, [n1, n2]), (1, [n2, n1])):
                # --- CSV (quoted_rfc carries any name)
                with open(p1, 'w', newline='', encoding='utf-8') as f:
                    f.write(refcsv.ref_write([hdr] + ROWS, ',', 'quoted_rfc'))
                for label, text, p in queries_for(n1, pos):
                    err, recs = None, None
                    try:
                        with core.watchdog(10):
                            rb.query_csv(text, p1, ',', 'quoted_rfc', po, ',', 'quoted_rfc', 'utf-8', [], True)
                        with open(po, newline='', encoding='utf-8') as f:
                            recs = refcsv.ref_read(f.read(), ',', 'quoted_rfc').records[1:]     # first line = output header
                    except BaseException as e:
                        if isinstance(e, (KeyboardInterrupt, SystemExit)):
                            raise
                        err = drive.classify_py(e)
                    res.states += 1
                    res.transitions += 1
                    if judge(res, label, text, {'records': recs, 'error': err}, p, {'backend': 'csv', 'header': hdr, 'query': text}):
                        res.feat('csv_' + label)
                        res.nontrivial += 1
                # --- join side through CSV: b["n"]
                with open(p2, 'w', newline='', encoding='utf-8') as f:
                    f.write(refcsv.ref_write([hdr] + [['c1r1', 'J1'], ['c1r2', 'J2']] if pos == 0 else [hdr] + [['J1', 'c1r1'], ['J2', 'c1r2']], ',', 'quoted_rfc'))
                with open(p1, 'w', newline='', encoding='utf-8') as f:
                    f.write(refcsv.ref_write([['k1', 'k2']] + ROWS, ',', 'quoted_rfc'))
                keycol = 2 if pos == 0 else 1   # the OTHER column of B carries the key? no: key is the c1rN column
                bkey = 1 if pos == 0 else 2
                text = 'select a1, b[%s] join t2.csv on a1 == b%d' % (refql.lit_text(n1, '"'), bkey)
                # b[n1] is column `pos` of B; with pos == 0 that is the key column itself
                err, recs = None, None
                try:
                    with core.watchdog(10):
                        rb.query_csv(text, p1, ',', 'quoted_rfc', po, ',', 'quoted_rfc', 'utf-8', [], True)
                    with open(po, newline='', encoding='utf-8') as f:
                        recs = refcsv.ref_read(f.read(), ',', 'quoted_rfc').records[1:]
                except BaseException as e:
                    if isinstance(e, (KeyboardInterrupt, SystemExit)):
                        raise
                    err = drive.classify_py(e)
                brow = [['c1r1', 'J1'], ['c1r2', 'J2']] if pos == 0 else [['J1', 'c1r1'], ['J2', 'c1r2']]
                expj = [['c1r%d' % (i + 1), brow[i][pos]] for i in range(2)]
                res.evaluations += 1
                res.traces += 1
                res.states += 1
                res.transitions += 1
                if err is not None or recs != expj:
                    res.violation('join-name-binds-wrong-column', {'backend': 'csv-join', 'header_b': hdr, 'query': text}, expj, {'records': recs, 'error': err})
                else:
                    res.feat('csv_join')
                # --- pandas
                df = pd.DataFrame(ROWS, columns=hdr)
                for label, text, p in queries_for(n1, pos):
                    err, recs = None, None
                    try:
                        with core.watchdog(10):
                            out = rb.query_pandas_dataframe(text, df, [])
                        recs = [list(r) for r in out.itertuples(index=False)]
                    except BaseException as e:
                        if isinstance(e, (KeyboardInterrupt, SystemExit)):
                            raise
                        err = drive.classify_py(e)
                    res.states += 1
                    res.transitions += 1
                    if judge(res, label, text, {'records': recs, 'error': err}, p, {'backend': 'pandas', 'header': hdr, 'query': text}):
                        res.feat('pandas_' + label)
                        res.nontrivial += 1
                # --- sqlite
                conn = sqlite3.connect(':memory:')
                try:
                    conn.execute('CREATE TABLE t (%s TEXT, %s TEXT)' % tuple('"' + h.replace('"', '""') + '"' for h in hdr))
                    conn.executemany('INSERT INTO t VALUES (?, ?)', ROWS)
                    for label, text, p in queries_for(n1, pos):
                        err, recs = None, []
                        try:
                            with core.watchdog(10):
                                it = rbql_sqlite.SqliteRecordIterator(conn, 't')
                                eng.query(text, it, eng.TableWriter(recs), [])
                        except BaseException as e:
                            if isinstance(e, (KeyboardInterrupt, SystemExit)):
                                raise
                            err = drive.classify_py(e)
                        res.states += 1
                        res.transitions += 1
                        if judge(res, label, text, {'records': recs, 'error': err}, p, {'backend': 'sqlite', 'header': hdr, 'query': text}):
                            res.feat('sqlite_' + label)
                            res.nontrivial += 1
                finally:
                    conn.close()
        res.sample({'backends': ['csv', 'csv-join', 'pandas', 'sqlite'], 'pairs': len(pairs)})
    finally:
        shutil.rmtree(scratch, ignore_errors=True)


def part_wide(sh, res):
    """headers of 12 columns whose names are prefixes / extensions of one another (n1 vs n10, x vs xx vs x_1): every name at every one of the 12 positions (rotations of the header), every spelling,
    a-side through query_table (Python and rbql-js), b-side through a JOIN, and the positional variables a1..a12 next to them; NF and the last column; direct mode"""
    fams = [['n%d' % i for i in range(1, 13)], ['x', 'xx', 'xxx', 'x1', 'x10', 'x11', 'x_1', 'x1_', '_x', 'X', 'xX', 'x12'],
            ['a1', 'a2', 'a10', 'a11', 'b1', 'b10', 'NR', 'NF', 'aNR', 'a', 'b', 'a12'], ['col 1', 'col 10', 'col 11', 'col 1 ', 'col', 'col 12', 'c', 'co', 'col 2', 'col 20', ' col 1', 'col  1']]
    wrows = [['r%dc%d' % (r, c) for c in range(1, 13)] for r in (1, 2, 3)]
    brows = [['r%dc1' % r] + ['B%dc%d' % (r, c) for c in range(2, 13)] for r in (1, 2, 3)]
    jsbatch, jsmeta = [], []
    for fam in fams:
        for rot in range(12):
            hdr = fam[rot:] + fam[:rot]
            for pos, name in enumerate(hdr):
                for label, text, p_ in queries_for(name, pos):
                    if label == 'attr' and fam is fams[2]:
                        continue      # a.a1 etc.: the name itself looks like a variable - kept to the bracket spellings
                    text2 = text.replace(', NR', ', a%d, NR' % (pos + 1))
                    exp = [[r[pos], r[pos], i + 1] for i, r in enumerate(wrows)]
                    got = drive.run_py(text2, qcheck.copy_table(wrows), None, hdr, None)
                    res.evaluations += 1
                    res.traces += 1
                    res.states += 1
                    res.transitions += 1
                    if got['error'] is not None or got['records'] != exp:
                        res.violation('name-binds-wrong-column', {'backend': 'table', 'position': 'wide', 'header': hdr, 'query': text2, 'wide': True}, exp, {'records': got['records'], 'error': got['error']})
                    else:
                        res.feat('wide_' + label)
                        if pos >= 9:
                            res.nontrivial += 1
                    if label != 'attr':
                        jsbatch.append({'op': 'query', 'query': text2, 'input': wrows, 'input_names': hdr})
                        jsmeta.append((text2, exp, hdr))
                    if rot % 3 == 0:
                        # b-side: the same header on the join table
                        tb = text.replace('select a', 'select b', 1).replace(', NR', ', b%d, a2 join B on a1 == b1' % (pos + 1))
                        if label == 'attr':
                            tb = 'select b.%s, b%d, a2 join B on a1 == b1' % (name, pos + 1)
                        expb = [[r[pos], r[pos], w[1]] for r, w in zip(brows, wrows)]
                        got = drive.run_py(tb, qcheck.copy_table(wrows), qcheck.copy_table(brows), ['k%d' % i for i in range(1, 13)], hdr)     # both tables carry a header (the engine refuses mixed modes)
                        res.evaluations += 1
                        res.traces += 1
                        res.states += 1
                        if got['error'] is not None or got['records'] != expb:
                            res.violation('name-binds-wrong-column', {'backend': 'table', 'position': 'wide-join', 'header': hdr, 'query': tb, 'wide': True, 'bside': True}, expb, {'records': got['records'], 'error': got['error']})
                        else:
                            res.feat('wide_bside')
            # positional variables next to a full-width header, the last column, NF
            for text, exp in (('select a12, a10, a1, NF', [[r[11], r[9], r[0], 12] for r in wrows]), ('select a[12], a[11], a[-1]', [[r[11], r[10], r[11]] for r in wrows]),
                              ('update set a12 = a10 + a1, a10 = NF', [r[:9] + [12, r[10], r[9] + r[0]] for r in wrows]),
                              ('select * except a10, a12, a1', [r[1:9] + [r[10]] for r in wrows]), ('select a11 order by a12 desc limit 2', [[wrows[2][10]], [wrows[1][10]]])):
                got = drive.run_py(text, qcheck.copy_table(wrows), None, hdr, None)
                res.evaluations += 1
                res.traces += 1
                res.states += 1
                if got['error'] is not None or got['records'] != exp:
                    if 'a[-1]' in text and got['error'] is not None:
                        continue
                    res.violation('name-binds-wrong-column', {'backend': 'table', 'position': 'wide-positional', 'header': hdr, 'query': text, 'wide': True}, exp, {'records': got['records'], 'error': got['error']})
                else:
                    res.feat('wide_positional')
    from vf import js
    if js.available():
        for (text, exp, hdr), o in zip(jsmeta, js.run_batch(jsbatch)):
            got = qcheck.js_got(o)
            res.evaluations += 1
            res.traces += 1
            if got['error'] is not None or got['records'] != exp:
                res.violation('js:name-binds-wrong-column', {'backend': 'js-table', 'position': 'wide', 'header': hdr, 'query': text}, exp, {'records': got['records'], 'error': got['error']})
            else:
                res.feat('js_wide')
    res.sample({'wide_header': fams[1], 'rotations': 12, 'queries': ['select a["x10"], a5, NR', 'select b.x10, b5, a2 join B on a1 == b1']})


def part_positions(sh, res):
    """names in WHERE / UPDATE / EXCEPT / ORDER BY positions, direct mode, header-never-data, triples"""
    rb = tree.load()
    names = [n for n in all_names(1) if not excluded(n)] + ['x7', 'x ', ' x', '\\"', '"\\', "''", '[]', '].', 'é_', 'last, first', 'a,b,c', ', ']
    jsbatch, jsmeta = [], []
    for n1 in names:
        for n2 in names:
            if n1 == n2:
                continue
            hdr = [n1, n2]
            v = refql.lit_text(n1, '"')
            v2 = refql.lit_text(n2, "'")
            cases = [
                ('where', 'select a2 where a[%s] == "c1r2"' % v, [['c2r2']]),
                ('update', 'update set a[%s] = a[%s] + "!"' % (v, v2), [['c2r%d!' % i, 'c2r%d' % i] for i in (1, 2, 3)]),
                ('except', 'select * except a[%s]' % v, [['c2r%d' % i] for i in (1, 2, 3)]),
                ('order', 'select a[%s] order by a[%s] desc' % (v2, v), [['c2r%d' % i] for i in (3, 2, 1)]),
            ]
            for label, text, exp in cases:
                jsbatch.append({'op': 'query', 'query': text, 'input': ROWS, 'input_names': hdr})
                jsmeta.append((label, text, exp, hdr))
                got = drive.run_py(text, qcheck.copy_table(ROWS), None, hdr, None)
                res.evaluations += 1
                res.traces += 1
                res.states += 1
                res.transitions += 1
                if got['error'] is not None or got['records'] != exp:
                    res.violation('name-binds-wrong-column', {'backend': 'table', 'position': label, 'header': hdr, 'query': text}, exp, {'records': got['records'], 'error': got['error']})
                else:
                    res.feat('position_' + label)
                    res.nontrivial += 1
    from vf import js
    if js.available():
        for (label, text, exp, hdr), o in zip(jsmeta, js.run_batch(jsbatch)):
            got = qcheck.js_got(o)
            res.evaluations += 1
            res.traces += 1
            if got['error'] is not None or got['records'] != exp:
                res.violation('js:name-binds-wrong-column', {'backend': 'js-table', 'position': label, 'header': hdr, 'query': text}, exp, {'records': got['records'], 'error': got['error']})
            else:
                res.feat('js_position_' + label)
    # column-name variables used only inside an f-string (the engine scans the raw query text for them on purpose)
    fnames = ['x', 'Y', 'x7', '_x', 'col_1']
    for n1 in fnames:
        for n2 in fnames:
            if n1 == n2:
                continue
            hdr = [n1, n2]
            for text, exp in (('select NR, f"{a.%s}:{a.%s}"' % (n1, n2), [[i, 'c1r%d:c2r%d' % (i, i)] for i in (1, 2, 3)]),
                              ("select f\"<{a['%s']}>\"" % n2, [['<c2r%d>' % i] for i in (1, 2, 3)]),
                              ('update set a2 = f"{a.%s}!"' % n1, [['c1r%d' % i, 'c1r%d!' % i] for i in (1, 2, 3)])):
                got = drive.run_py(text, qcheck.copy_table(ROWS), None, hdr, None)
                res.evaluations += 1
                res.traces += 1
                res.states += 1
                res.transitions += 1
                if got['error'] is not None or got['records'] != exp:
                    res.violation('name-binds-wrong-column', {'backend': 'table', 'position': 'f-string', 'header': hdr, 'query': text}, exp, {'records': got['records'], 'error': got['error']})
                else:
                    res.feat('fstring_names')
                    res.nontrivial += 1
    # scale probe: long names (a common prefix of 12+ characters, differing only in the tail; a 40-character name)
    longn = ['customer_name_1', 'customer_name_2', 'customer_name_10', 'customer name (2019), "net"', 'x' * 40, 'x' * 39 + 'y', 'w{[<>]}z', 'p"""""q', 'cost ~~~~~ total', 'a------b', "q'''''''r"]
    for n1 in longn:
        for n2 in longn:
            if n1 == n2:
                continue
            for pos, hdr in ((0, [n1, n2]), (1, [n2, n1])):
                for label, text, p in queries_for(n1, pos):
                    got = drive.run_py(text, qcheck.copy_table(ROWS), None, hdr, None)
                    res.states += 1
                    res.transitions += 1
                    if judge(res, label, text, got, p, {'backend': 'table', 'header': hdr, 'query': text}):
                        res.feat('long_names')
                        res.nontrivial += 1
    # names that look like RBQL's own variables
    special = ['NR', 'NF', 'NU', 'aNR', 'bNR', 'a1', 'b2', 'count', 'top', 'x']
    for n1 in special:
        for n2 in special:
            if n1 == n2:
                continue
            for pos, hdr in ((0, [n1, n2]), (1, [n2, n1])):
                for label, text, p in queries_for(n1, pos):
                    got = drive.run_py(text, qcheck.copy_table(ROWS), None, hdr, None)
                    res.states += 1
                    res.transitions += 1
                    if judge(res, label, text, got, p, {'backend': 'table', 'header': hdr, 'query': text}):
                        res.feat('variable_like_names')
                        res.nontrivial += 1
    # direct mode: bare names
    idn = ['x', 'Y', '_', 'x7', '_x', 'Yx', 'xx', 'x_7']
    for n1 in idn:
        for n2 in idn:
            if n1 == n2:
                continue
            for pos, hdr in ((0, [n1, n2]), (1, [n2, n1])):
                text = 'select %s, NR' % n1
                got = drive.run_py(text, qcheck.copy_table(ROWS), None, hdr, None, normalize=False)
                res.states += 1
                res.transitions += 1
                if judge(res, 'bare', text, got, pos, {'backend': 'table-direct', 'header': hdr, 'query': text}):
                    res.feat('direct_mode_bare')
                    res.nontrivial += 1
                # the same through the dataframe front-end with normalize_column_names=False
                try:
                    import pandas as pd
                    o = rb.query_pandas_dataframe(text, pd.DataFrame(ROWS, columns=hdr), None, None, False)
                    gotp = {'records': [list(r) for r in o.itertuples(index=False)], 'error': None}
                except Exception as e:
                    gotp = {'records': None, 'error': drive.classify_py(e)}
                if judge(res, 'bare', text, gotp, pos, {'backend': 'pandas-direct', 'header': hdr, 'query': text}):
                    res.feat('direct_mode_bare_pandas')
    # direct mode through rbql-js as well, and direct mode with a JOIN: a bare name present in both tables is ambiguous (parsing error) iff the query mentions it
    djs, dmeta = [], []
    for n1 in idn:
        for n2 in idn:
            if n1 == n2:
                continue
            for pos, hdr in ((0, [n1, n2]), (1, [n2, n1])):
                djs.append({'op': 'query', 'query': 'select %s, NR' % n1, 'input': ROWS, 'input_names': hdr, 'normalize': False})
                dmeta.append(('bare', 'select %s, NR' % n1, pos, hdr, None))
    jrows = [['c1r1', 'J1'], ['c1r3', 'J3']]
    for n1 in idn[:5]:
        for n2 in idn[:5]:
            if n1 == n2:
                continue
            for bn in ([n1 + 'q', n2 + 'q'], [n1, n2 + 'q'], [n1 + 'q', n2]):
                text = 'select %s, %s join b on %s == %s' % (n2, bn[1], n1, bn[0])
                ambiguous = any(x in (n1, n2) for x in bn)
                exp = None if ambiguous else [['c2r1', 'J1'], ['c2r3', 'J3']]
                got = drive.run_py(text, qcheck.copy_table(ROWS), qcheck.copy_table(jrows), [n1, n2], bn, normalize=False)
                res.evaluations += 1
                res.traces += 1
                res.states += 1
                ok = (got['error'] is not None and got['error'][0] == 'parsing') if ambiguous else (got['error'] is None and got['records'] == exp)
                if not ok:
                    res.violation('direct-mode-join-names', {'backend': 'table-direct', 'header': [n1, n2], 'header_b': bn, 'query': text}, exp if exp else 'parsing error (ambiguous name)', {'records': got['records'], 'error': got['error']})
                else:
                    res.feat('direct_mode_join_ambiguous' if ambiguous else 'direct_mode_join_ok')
                djs.append({'op': 'query', 'query': text, 'input': ROWS, 'join': jrows, 'input_names': [n1, n2], 'join_names': bn, 'normalize': False})
                dmeta.append(('join', text, ambiguous, [n1, n2], exp))
    if js.available():
        for (kind, text, x, hdr, exp), o in zip(dmeta, js.run_batch(djs)):
            got = qcheck.js_got(o)
            res.evaluations += 1
            res.traces += 1
            if kind == 'bare':
                if judge(res, 'bare', text, got, x, {'backend': 'js-table-direct', 'header': hdr, 'query': text}):
                    res.feat('js_direct_mode_bare')
            else:
                ok = (got['error'] is not None and got['error'][0] == 'parsing') if x else (got['error'] is None and got['records'] == exp)
                if not ok:
                    res.violation('js:direct-mode-join-names', {'backend': 'js-table-direct', 'header': hdr, 'query': text}, exp if exp else 'parsing error (ambiguous name)', {'records': got['records'], 'error': got['error']})
                else:
                    res.feat('js_direct_mode_join')
    # triples over the nastiest names
    nasty = ['"', "'", '\\', '\\"', "\\'", 'x ', ' x', 'x', '\n', '\t', '#', '[', ']', '",', 'é']
    for trip in itertools.permutations(nasty[:sh['ntriple']], 3):
        for pos in range(3):
            text = 'select a[%s], NR' % refql.lit_text(trip[pos], '"')
            rows3 = [['c1r1', 'c2r1', 'c3r1'], ['c1r2', 'c2r2', 'c3r2']]
            got = drive.run_py(text, qcheck.copy_table(rows3), None, list(trip), None)
            res.states += 1
            res.transitions += 1
            if judge(res, 'dq3', text, got, pos, {'backend': 'table', 'header': list(trip), 'query': text}, rows=rows3):
                res.feat('triples')
                res.nontrivial += 1
    res.sample({'positions': ['where', 'update', 'except', 'order'], 'direct_mode_names': idn})


def part_header_not_data(sh, res):
    rb = tree.load()
    eng = tree.engine()
    from rbql import rbql_sqlite
    import pandas as pd
    base = '/dev/shm' if os.path.isdir('/dev/shm') else tempfile.gettempdir()
    scratch = tempfile.mkdtemp(prefix='vfc09h.', dir=base)
    try:
        hdr = ['h1', 'h2']
        rows = [['h1', 'h2'], ['d1', 'd2']]      # a data row equal to the header row must still be data
        for T in qcheck.tables_upto(rows, 2):
            exp = [[i + 1, r[0]] for i, r in enumerate(T)]
            observed = {}
            got = drive.run_py('select NR, a1', qcheck.copy_table(T), None, hdr, None)
            observed['table'] = got['records']
            p1, po = os.path.join(scratch, 't1.csv'), os.path.join(scratch, 'o.csv')
            for dlm, pol in ((',', 'quoted'), (';', 'quoted'), ('\t', 'simple'), (' ', 'whitespace'), (',', 'quoted_rfc'), ('|', 'simple')):
                with open(p1, 'w', newline='') as f:
                    f.write(refcsv.ref_write([hdr] + T, dlm, pol))
                rb.query_csv('select NR, a1', p1, dlm, pol, po, ',', 'quoted', 'utf-8', [], True)
                with open(po, newline='') as f:
                    observed['csv %r %s' % (dlm, pol)] = [[int(r[0]), r[1]] for r in refcsv.ref_read(f.read(), ',', 'quoted').records[1:]]
            with open(p1, 'w', newline='') as f:
                f.write(refcsv.ref_write([[hdr[0]]] + [[r[0]] for r in T], '', 'monocolumn'))
            rb.query_csv('select NR, a1', p1, '', 'monocolumn', po, ',', 'quoted', 'utf-8', [], True)
            with open(po, newline='') as f:
                observed['csv monocolumn'] = [[int(r[0]), r[1]] for r in refcsv.ref_read(f.read(), ',', 'quoted').records[1:]]
            out = rb.query_pandas_dataframe('select NR, a1', pd.DataFrame(T, columns=hdr), [])
            observed['pandas'] = [[int(r[0]), r[1]] for r in out.itertuples(index=False)]
            conn = sqlite3.connect(':memory:')
            conn.execute('CREATE TABLE t (h1 TEXT, h2 TEXT)')
            conn.executemany('INSERT INTO t VALUES (?, ?)', T)
            recs = []
            eng.query('select NR, a1', rbql_sqlite.SqliteRecordIterator(conn, 't'), eng.TableWriter(recs), [])
            conn.close()
            observed['sqlite'] = recs
            for backend, r in observed.items():
                res.evaluations += 1
                res.traces += 1
                res.states += 1
                res.transitions += len(T)
                if r != exp:
                    res.violation('header-processed-as-data', {'backend': backend, 'table': T, 'header': hdr}, exp, r)
                else:
                    res.feat('header_not_data')
                    res.nontrivial += 1
        res.sample({'query': 'select NR, a1', 'backends': ['table', 'csv', 'pandas', 'sqlite']})
    finally:
        shutil.rmtree(scratch, ignore_errors=True)


def part_with(sh, res):
    rb = tree.load()
    base = '/dev/shm' if os.path.isdir('/dev/shm') else tempfile.gettempdir()
    scratch = tempfile.mkdtemp(prefix='vfc09w.', dir=base)
    try:
        p1, p2 = os.path.join(scratch, 't1.csv'), os.path.join(scratch, 't2.csv')
        with open(p1, 'w') as f:
            f.write('name,val\nk,1\nm,2\nname,3\n')
        with open(p2, 'w') as f:
            f.write('name,jv\nk,p\nm,q\nname,r\n')
        # the same tables with comment lines before the header and between records (read with comment_prefix)
        p1c, p2c = os.path.join(scratch, 'c1.csv'), os.path.join(scratch, 'c2.csv')
        with open(p1c, 'w') as f:
            f.write('#c\n#c\nname,val\n#c\nk,1\nm,2\n#c\nname,3\n')
        with open(p2c, 'w') as f:
            f.write('#c\nname,jv\nk,p\n#c\nm,q\nname,r\n#c\n')
        meaning = {'header': True, 'headers': True, 'noheader': False, 'noheaders': False}

        def run(text, flag, commented=False):
            po = os.path.join(scratch, 'o.csv')
            warns = []
            try:
                if commented:
                    rb.query_csv(text.replace('t2.csv', 'c2.csv'), p1c, ',', 'quoted', po, ',', 'quoted', 'utf-8', warns, flag, '#')
                else:
                    rb.query_csv(text, p1, ',', 'quoted', po, ',', 'quoted', 'utf-8', warns, flag)
                with open(po) as f:
                    return ('ok', f.read(), sorted(warns))
            except Exception as e:
                return ('error', drive.classify_py(e)[0], str(e))
        bases = ['select a.name, b.jv join t2.csv on a1 == b1', 'select b["jv"], a["val"] join t2.csv on a.name == b.name', "select b['name'], NR left join t2.csv on a2 == b2",
                 'select a1, a2, NR', 'select NR, a2 where a1 != "zz"', 'select a1, b2, bNR join t2.csv on a1 == b1', 'select * left join t2.csv on a1 == b1', 'update set a2 = NR',
                 'select a1, b1 join t2.csv on a2 == b2']
        for q in bases:
            for flag in (True, False):
                for mod, val in meaning.items():
                    for spell in ('with (%s)', 'WITH (%s)', 'With(%s)'):
                        # comment lines must change nothing: the commented files give the plain files' answer (join-file name aside)
                        gc_ = run(q + ' ' + (spell % mod), flag, commented=True)
                        plain_ = run(q + ' ' + (spell % mod), flag)
                        norm = lambda r: (r[0], r[1], [w.replace('c2.csv', 't2.csv') for w in r[2]] if isinstance(r[2], list) else r[2].replace('c2.csv', 't2.csv'))
                        if norm(gc_) != norm(plain_):
                            res.violation('comment-lines-change-with-modifier-result', {'query': q, 'modifier': spell % mod, 'caller_flag': flag}, plain_, gc_)
                        else:
                            res.feat('with_and_comments')
                        got = run(q + ' ' + (spell % mod), flag)
                        exp = run(q, val)
                        res.evaluations += 1
                        res.traces += 1
                        res.states += 1
                        res.transitions += 1
                        if got != exp:
                            res.violation('with-modifier-does-not-override', {'query': q, 'modifier': spell % mod, 'caller_flag': flag}, exp, got)
                        else:
                            res.feat('with_override')
                            if flag != val:
                                res.nontrivial += 1
                                res.feat('with_overrides_opposite_flag')
        res.sample({'with_modifiers': list(meaning), 'caller_flags': [True, False], 'queries': bases})
    finally:
        shutil.rmtree(scratch, ignore_errors=True)


def part_with_js(sh, res):
    """the WITH modifier through rbql-js query_csv (stream and bulk mode), differential like part_with"""
    from vf import js
    if not js.available():
        res.feat('js_skipped')
        return
    base = '/dev/shm' if os.path.isdir('/dev/shm') else tempfile.gettempdir()
    scratch = tempfile.mkdtemp(prefix='vfc09j.', dir=base)
    try:
        p1, p2, po = os.path.join(scratch, 't1.csv'), os.path.join(scratch, 't2.csv'), os.path.join(scratch, 'o.csv')
        with open(p1, 'w') as f:
            f.write('name,val\nk,1\nm,2\nname,3\n')
        with open(p2, 'w') as f:
            f.write('name,jv\nk,p\nm,q\nname,r\n')
        meaning = {'header': True, 'headers': True, 'noheader': False, 'noheaders': False}
        bases = ['select a.name, b.jv join t2.csv on a1 == b1', 'select b["jv"], a["val"] join t2.csv on a.name == b.name', 'select a1, a2, NR', 'select NR, a2 where a1 != "zz"',
                 'select a1, b2, bNR join t2.csv on a1 == b1', 'select * left join t2.csv on a1 == b1', 'update set a2 = NR']
        batch, meta = [], []
        for q in bases:
            for bulk in (False, True):
                for flag in (True, False):
                    batch.append({'op': 'query_csv', 'query': q, 'input_path': p1, 'out_path': po, 'dlm': ',', 'policy': 'quoted', 'with_headers': flag, 'bulk': bulk})
                    meta.append(('plain', q, bulk, flag, None))
                    for mod in meaning:
                        for spell in ('with (%s)', 'WITH (%s)'):
                            batch.append({'op': 'query_csv', 'query': q + ' ' + (spell % mod), 'input_path': p1, 'out_path': po, 'dlm': ',', 'policy': 'quoted', 'with_headers': flag, 'bulk': bulk})
                            meta.append(('mod', q, bulk, flag, mod))
        outs = js.run_batch(batch)
        plain = {}
        for m, o in zip(meta, outs):
            if m[0] == 'plain':
                plain[(m[1], m[2], m[3])] = o
        for m, c, o in zip(meta, batch, outs):
            if m[0] != 'mod':
                continue
            exp = plain[(m[1], m[2], meaning[m[4]])]
            res.evaluations += 1
            res.traces += 1
            res.states += 1
            res.transitions += 1
            strip = lambda r: {'output': r.get('output'), 'warnings': sorted(r.get('warnings', [])), 'error': (r.get('error') or {}).get('name')}
            if strip(o) != strip(exp):
                res.violation('js:with-modifier-does-not-override', {'backend': 'js-query_csv', 'query': c['query'], 'caller_flag': m[3], 'bulk': m[2]}, strip(exp), strip(o))
            else:
                res.feat('js_with_override')
                if m[3] != meaning[m[4]]:
                    res.nontrivial += 1
        res.sample({'js_with_queries': bases[:3]})
    finally:
        shutil.rmtree(scratch, ignore_errors=True)

JOIN_NAMES = ['x', 'Y', 'x7', 'id', 'x y', ' x', '"', "'", 'x,', '\u00e9', '[', ']', '=', 'on', 'b', 'a1']


def join_on_cases(lo, hi):
    """JOIN ... ON with every spelling of the two key columns, both operand orders, both key positions, INNER and LEFT"""
    arows = [['k1', 'v1'], ['k2', 'v2'], ['k3', 'v3']]
    brows = [['k2', 'p'], ['k1', 'q']]
    for i, n1 in enumerate(JOIN_NAMES):
        if not (lo <= i < hi):
            continue
        for n2 in JOIN_NAMES:
            for ca in (0, 1):
                for cb in (0, 1):
                    A = [r if ca == 0 else r[::-1] for r in arows]
                    B = [r if cb == 0 else r[::-1] for r in brows]
                    ha = [n1, n1 + 'z'] if ca == 0 else [n1 + 'z', n1]
                    hb = [n2, n2 + 'z'] if cb == 0 else [n2 + 'z', n2]
                    sa = [('num', 'a%d' % (ca + 1)), ('dq', 'a[%s]' % refql.lit_text(n1, '"')), ('sq', 'a[%s]' % refql.lit_text(n1, "'"))] + ([('attr', 'a.' + n1)] if IDENT.match(n1) else [])
                    sb = [('num', 'b%d' % (cb + 1)), ('dq', 'b[%s]' % refql.lit_text(n2, '"')), ('sq', 'b[%s]' % refql.lit_text(n2, "'"))] + ([('attr', 'b.' + n2)] if IDENT.match(n2) else [])
                    for la, ta in sa:
                        for lb, tb in sb:
                            for order in ('ab', 'ba'):
                                for kind in ('join', 'left join'):
                                    cond = '%s == %s' % ((ta, tb) if order == 'ab' else (tb, ta))
                                    text = 'select a%d, b%d %s b on %s' % (ca + 1, 2 - cb, kind, cond)
                                    exp = [['k1', 'q'], ['k2', 'p']] + ([['k3', None]] if kind == 'left join' else [])
                                    yield {'query': text, 'A': A, 'B': B, 'ha': ha, 'hb': hb, 'exp': exp, 'label': '%s_%s_%s' % (la, lb, order)}


def part_join_on(sh, res):
    for c in join_on_cases(sh['lo'], sh['hi']):
        if sh.get('js'):
            continue
        got = drive.run_py(c['query'], qcheck.copy_table(c['A']), qcheck.copy_table(c['B']), c['ha'], c['hb'])
        res.evaluations += 1
        res.traces += 1
        res.states += 1
        res.transitions += 1
        if got['error'] is not None or got['records'] != c['exp']:
            res.violation('join-key-name-binds-wrong-column', {'backend': 'table-join', 'header': c['ha'], 'header_b': c['hb'], 'query': c['query'], 'A': c['A'], 'B': c['B']}, c['exp'], {'records': got['records'], 'error': got['error']})
        else:
            res.feat('join_on_' + c['label'].split('_')[2])
            res.feat('join_on_spelling_' + c['label'].rsplit('_', 1)[0])
            res.nontrivial += 1
    if sh.get('js'):
        from vf import js
        if not js.available():
            res.feat('js_skipped')
            return
        cases = list(join_on_cases(sh['lo'], sh['hi']))
        outs = js.run_batch([{'op': 'query', 'query': c['query'], 'input': c['A'], 'join': c['B'], 'input_names': c['ha'], 'join_names': c['hb']} for c in cases])
        for c, o in zip(cases, outs):
            got = qcheck.js_got(o)
            res.evaluations += 1
            res.traces += 1
            res.states += 1
            res.transitions += 1
            if got['error'] is not None or got['records'] != c['exp']:
                res.violation('js:join-key-name-binds-wrong-column', {'backend': 'js-table-join', 'header': c['ha'], 'header_b': c['hb'], 'query': c['query'], 'A': c['A'], 'B': c['B']}, c['exp'], {'records': got['records'], 'error': got['error']})
            else:
                res.feat('js_join_on_' + c['label'].split('_')[2])
                res.nontrivial += 1
    res.sample({'join_on': 'select aK, bM [left] join b on <a-spelling> == <b-spelling> (both orders)', 'names': JOIN_NAMES[sh['lo']:sh['hi']]})


def run_shard(sh):
    res = core.Result()
    if sh['part'] == 'join_on':
        part_join_on(sh, res)
        return res
    if sh['part'] == 'with_js':
        part_with_js(sh, res)
        return res
    if sh['part'] == 'table_js':
        part_table_js(sh, res)
        return res
    {'table': part_table, 'backends': part_backends, 'positions': part_positions, 'hnd': part_header_not_data, 'with': part_with, 'wide': part_wide}[sh['part']](sh, res)
    return res


def main(tier, seed):
    t0 = time.time()
    T = tier == 'thorough'
    names = [n for n in all_names() if not excluded(n)]
    shards = [{'part': 'table', 'lo': lo, 'hi': hi} for lo, hi in core.chunks(len(names), 64)]
    shards += [{'part': 'table_js', 'lo': lo, 'hi': hi} for lo, hi in core.chunks(len(names), 32)]
    npairs = len(subset_pairs(T))
    shards += [{'part': 'backends', 'full': T, 'lo': lo, 'hi': hi} for lo, hi in core.chunks(npairs, 32)]
    shards += [{'part': 'join_on', 'lo': i, 'hi': i + 1, 'js': j} for i in range(len(JOIN_NAMES)) for j in (False, True)]
    shards += [{'part': 'positions', 'ntriple': 12 if T else 8}, {'part': 'hnd'}, {'part': 'with'}, {'part': 'with_js'}, {'part': 'wide'}]
    res = core.run_shards('vf.checks.c09', shards)
    return core.finish(PID, tier, seed, res, t0,
        rule='all names of length 1-2 over 16 atoms; every ordered pair of distinct names as a 2-column header through query_table with a["n"], a[\'n\'] and a.n; a subset of pairs (all single-atom pairs, each 2-atom name against 3 decoys and its confusable partners) through '
             'query_csv (quoted_rfc files, also b["n"] through a JOIN file), pandas and sqlite; names (incl. names with commas) in WHERE / UPDATE / EXCEPT / ORDER BY through rbql-py and rbql-js; bare names in direct mode; header triples; `select NR, a1` on all 4 backends; WITH modifier x caller flag x 6 queries (differential); JOIN ON over 16 key names x 16 x key positions x every spelling pair (aN, a.n, a["n"], a[\'n\']) x both operand orders x INNER/LEFT, Python and rbql-js; 12-column headers of mutually prefixing names (n1/n10, x/xx/x1/x10, a1/b10/NR as names, `col 1`/`col 10`) in all 12 rotations x every position x every spelling, a-side (both engines) and b-side, next to a1..a12 / NF / a[-1]; '
             'non-trivial = the name is not identifier-like / the modifier contradicts the caller flag',
        assumptions=['names containing an a.ident / b.ident token are excluded (the quantifier)', 'the name inside a["..."] is written with the canonical escapes (backslash, quote, \\n, \\r, \\t)'],
        extra={'names': len(names), 'backend_pairs': npairs},
        min_features={'table_dq': 50000, 'table_sq': 50000, 'table_attr': 500, 'csv_dq': 300, 'pandas_dq': 300, 'sqlite_dq': 300, 'csv_join': 300, 'direct_mode_bare': 50, 'triples': 100, 'header_not_data': 20,
                      'with_overrides_opposite_flag': 50, 'variable_like_names': 300, 'fstring_names': 40, 'js_table_dq': 50000, 'js_table_sq': 50000, 'js_with_override': 100, 'position_update': 100, 'js_position_except': 100, 'js_direct_mode_bare': 50, 'direct_mode_bare_pandas': 50, 'direct_mode_join_ambiguous': 20, 'direct_mode_join_ok': 10, 'js_direct_mode_join': 30, 'js_position_update': 100, 'join_on_ab': 5000, 'join_on_ba': 5000, 'js_join_on_ba': 5000, 'join_on_spelling_dq_sq': 1000, 'wide_dq': 500, 'wide_sq': 500, 'wide_attr': 200, 'wide_bside': 300, 'wide_positional': 100, 'js_wide': 1000})


def replay(rep):
    c = rep['case']
    if c.get('backend') == 'table' and 'header' in c and 'query' in c:
        got = drive.run_py(c['query'], qcheck.copy_table(ROWS), None, c['header'], None)
        print(c['query'], c['header'], '->', got['records'], got['error'])
    else:
        print('re-run the check; case:', c)
    return 0
