"""C06 - no query ever modifies its sources (RBQL is non-destructive).

Lists: every (query, tables) case of compact C01 / C04 / C05 / C14 spaces (SELECT and UPDATE, succeeding and failing: parse errors, runtime errors at record k, STRICT LEFT
failures): deep snapshot of input and join tables before / after, no output row is an input / join row, and mutating any output row leaves sources and the other
output rows unchanged (shared LEFT JOIN null padding must not alias). rbql-js arrays: the same cases through the node driver. pandas: frames compared with
equals + dtypes + index. sqlite: file sha256, total_changes and a trace of every SQL statement, with ALL join-table identifiers of length <= 3 (quick) / <= 4 over
17 hostile symbols placed in the query text and as input table name: whatever happens, only `SELECT * FROM <letters, digits, underscore>;` may reach sqlite.
CSV: sha256 + size + mtime of the input and join files around query_csv, success and every error class.
"""
import io, os, re, time, copy, shutil, hashlib, sqlite3, tempfile, itertools
from vf import core, tree, refql, qcheck, drive
from vf.checks import c01, c04, c05, c14

PID = 'C06'
SQL_OK = re.compile(r'^SELECT \* FROM [A-Za-z0-9_]*;$')


def list_cases(sh):
    tier, seed = sh['tier'], sh['seed']
    src = sh['src']
    if src == 'c01':
        v, qs = c01.queries('quick', seed)
        pt = list(qcheck.tables_upto(v['rows'], 2))
        jt = list(qcheck.tables_upto(v['jrows'], 2))
        w12 = [['c%d' % i for i in range(1, 13)], ['d%d' % i for i in range(1, 13)], ['e%d' % i for i in range(1, 12)]]
        for kind, q in qs[sh['lo']:sh['hi']]:
            if kind == 'wide':
                for A in qcheck.tables_upto(w12, 2):
                    yield q, A, None, None
                continue
            if kind == 'plain':
                for A in pt[::sh['stride']]:
                    yield q, A, None, None
            else:
                for B in v['Bs']:
                    for A in jt[::sh['stride']]:
                        yield q, A, B, None
    elif src == 'c05':
        sp_ = c05.space('quick', seed)
        tabs, Bsets = c05.tables_and_Bs(sp_, 2)
        for kind, q in sp_['qs'][sh['lo']:sh['hi']]:
            if kind == 'wide':
                continue
            for B in Bsets.get(kind, [None]):
                for A in tabs[kind][::sh['stride']]:
                    yield q, A, B, (sp_['names'] if kind == 'named' else None)
    elif src == 'c04':
        sp_ = c04.space('quick', seed)
        ta = list(qcheck.tables_upto(sp_['rowsA'], 2))
        tb = list(qcheck.tables_upto(sp_['rowsB'], 2))
        for q in sp_['qs'][sh['lo']:sh['hi']]:
            for B in tb[::sh['stride']]:
                for A in ta[::sh['stride']]:
                    yield q, A, B, None
    elif src == 'c14':
        Bp = [['5', 'p'], ['6', 'q']]
        for kind, q in c14.poison_queries()[sh['lo']:sh['hi']]:
            for A, mask in c14.poison_tables(kind, 3):
                yield q, A, (Bp if q.get('join') else None), None


def part_lists(sh, res):
    jscases = []
    for q, A, B, names in list_cases(sh):
        text = refql.render(q)
        A0, B0 = copy.deepcopy(A), copy.deepcopy(B)
        A2, B2 = qcheck.copy_table(A), qcheck.copy_table(B)
        got = drive.run_py(text, A2, B2, names, None)
        res.evaluations += 1
        res.traces += 1
        res.states += 1
        res.transitions += len(A)
        case = {'kind': 'list', 'query': text, 'q': q, 'A': A, 'B': B, 'a_names': names, 'b_names': None}
        jscases.append((q, A, B, names, None))
        if got['error'] is not None:
            res.feat('failing_queries')
            res.feat('error_' + got['error'][0].split(':')[0])
        if A2 != A0 or (B is not None and B2 != B0):
            res.violation('source-list-modified', case, {'A': A0, 'B': B0}, {'A': A2, 'B': B2})
            continue
        out = got['records'] if got['records'] is not None else got.get('partial') or []
        if qcheck.aliasing({'records': out}, A2, B2):
            res.violation('output-row-aliases-source', case, None, None)
            continue
        # mutate every output row in turn: sources and the other rows must not move
        if out:
            snapshot = [list(r) if isinstance(r, list) else r for r in out]
            if len(set(id(r) for r in out)) != len(out):
                res.violation('output-rows-share-one-list', case, None, None)
            for i, row in enumerate(out):
                if not isinstance(row, list):
                    continue
                for j in range(len(row)):
                    row[j] = 'MUT'          # top-level cells only: nested lists built by the user's own expression may legitimately be shared
                row.append('MUT')
                others_ok = all(out[k] == snapshot[k] for k in range(len(out)) if k > i)
                if A2 != A0 or (B is not None and B2 != B0) or not others_ok:
                    res.violation('mutating-output-leaks', case, None, {'mutated_row': i})
                    break
            res.nontrivial += 1
            res.feat('outputs_mutated')
        res.outcome(got['error'][0] if got['error'] else 'ok')
    qcheck.run_js_cases(res, jscases, lambda q, A, B, exp, got, why: 'js-source-modified' if ("caller's" in why or 'aliases' in why) else 'js-mismatch')
    res.sample({'lists_from': sh['src'], 'range': [sh['lo'], sh['hi']]})


def part_tuples(sh, res):
    """tables whose rows are tuples (accepted by read-only queries): the caller's table must keep its row objects"""
    eng = tree.engine()
    A = [('k', '1'), ('m', '2'), ('k', 'x')]
    Bt = [('k', 'p'), ('m', 'q')]
    for q in ('select a1, a2', 'select a2 where a1 == "k"', 'select a1 order by a2 desc', 'select a1, count(*) group by a1', 'select distinct a1', 'select int(a2)', 'select a1 where a1 = 1',
              'select a1, b2 join b on a1 == b1', 'select top 1 a2'):
        rows = list(A)
        brows = list(Bt)
        ids = [id(r) for r in rows] + [id(r) for r in brows]
        try:
            eng.query_table(q, rows, [], [], brows if ' join ' in q else None)
        except Exception:
            pass
        res.evaluations += 1
        res.traces += 1
        res.states += 1
        res.transitions += 1
        res.feat('tuple_row_cases')
        if rows != A or brows != Bt or [id(r) for r in rows] + [id(r) for r in brows] != ids or not all(isinstance(r, tuple) for r in rows + brows):
            res.violation('source-list-modified', {'kind': 'tuples', 'query': q}, {'A': A, 'B': Bt}, {'A': rows, 'B': brows})
        else:
            res.nontrivial += 1


def part_pandas(sh, res):
    import pandas as pd
    rb = tree.load()
    A = pd.DataFrame([['k', '1', 'x;y'], ['m', '2', 'z'], ['k', 'bad', '']], columns=['name', 'val', 'tags'])
    An = pd.DataFrame([['k', 1, 2.5], ['m', 2, None]])
    Ai = pd.DataFrame([['k', '1', 'x'], ['m', '2', 'y']], columns=[2019, 2021, 7])       # non-string column labels
    B = pd.DataFrame([['k', 'p'], ['k', 'q'], ['n', 'r']], columns=['jk', 'jv'])
    queries = ['select *', 'select a1, a.val where a2 != "2"', 'update set a2 = a1 + "!"', 'update set a.name = "Z", a3 = NR', 'select distinct count a1', 'select a1, count(*) group by a1',
               'select * order by a2 desc', 'select a1, unnest(a3.split(";"))', 'select int(a2)', 'select a1 where a1 = "x"', 'select a.nosuch', 'select * except a1', 'select top 1 *',
               'select a1, b2 join b on a1 == b1', 'select * left join b on a1 == b1', 'update set a2 = b2 join b on a1 == b1', 'select a1 strict left join b on a1 == b1', 'update set a2 = b.jv left join b on a.name == b.jk']
    for frame, fname in ((A, 'named'), (An, 'unnamed'), (Ai, 'intlabels')):
        for q in queries:
            for join in (None, B):
                if ' join ' in q and join is None:
                    continue
                if fname in ('unnamed', 'intlabels') and ('a.' in q or 'b.' in q):
                    continue
                jf = join if fname == 'named' else (pd.DataFrame(join.values.tolist(), columns=([10, 20] if fname == 'intlabels' else None)) if join is not None else None)
                f0, j0 = frame.copy(deep=True), (jf.copy(deep=True) if jf is not None else None)
                err = None
                try:
                    with core.watchdog(10):
                        rb.query_pandas_dataframe(q, frame, [], jf)
                except BaseException as e:
                    if isinstance(e, (KeyboardInterrupt, SystemExit)):
                        raise
                    err = type(e).__name__
                res.evaluations += 1
                res.traces += 1
                res.states += 1
                res.transitions += 1
                res.feat('pandas_cases')
                if err:
                    res.feat('pandas_failing')
                same = frame.equals(f0) and list(frame.dtypes) == list(f0.dtypes) and frame.index.equals(f0.index) and list(frame.columns) == list(f0.columns) and [type(c) for c in frame.columns] == [type(c) for c in f0.columns]
                if jf is not None:
                    same = same and jf.equals(j0) and list(jf.dtypes) == list(j0.dtypes) and jf.index.equals(j0.index) and [type(c) for c in jf.columns] == [type(c) for c in j0.columns] and list(jf.columns) == list(j0.columns)
                if not same:
                    res.violation('dataframe-modified', {'kind': 'pandas', 'query': q, 'frame': fname}, None, None)
                else:
                    res.nontrivial += 1
    res.sample({'pandas_queries': queries[:4]})


def sha(path):
    with open(path, 'rb') as f:
        return hashlib.sha256(f.read()).hexdigest()


def part_sqlite(sh, res):
    eng = tree.engine()
    from rbql import rbql_sqlite
    syms = ['t', '2', '_', ';', '-', "'", '"', '(', ')', '*', ',', '.', '[', ']', '`', '\\', '^']
    base = '/dev/shm' if os.path.isdir('/dev/shm') else tempfile.gettempdir()
    scratch = tempfile.mkdtemp(prefix='vfc06.', dir=base)
    try:
        db = os.path.join(scratch, 'db.sqlite')
        conn = sqlite3.connect(db)
        conn.execute('CREATE TABLE t (c1 TEXT, c2 TEXT)')
        conn.execute('CREATE TABLE t2 (k TEXT, v TEXT)')
        conn.execute('CREATE TABLE _ (k TEXT)')
        conn.executemany('INSERT INTO t VALUES (?, ?)', [('k', '1'), ('m', '2')])
        conn.executemany('INSERT INTO t2 VALUES (?, ?)', [('k', 'p')])
        conn.commit()
        conn.close()
        h0 = sha(db)
        conn = sqlite3.connect(db)
        stmts = []
        conn.set_trace_callback(stmts.append)
        ids = []
        for n in range(sh['minlen'], sh['maxlen'] + 1):
            for tup in itertools.product(syms, repeat=n):
                ids.append(''.join(tup))
        ids = ids[sh['lo']:sh['hi']]
        for ident in ids:
            for mode in ('join_id', 'input_name'):
                del stmts[:]
                tc0 = conn.total_changes
                err = None
                out = []
                try:
                    with core.watchdog(10):
                        if mode == 'join_id':
                            it = rbql_sqlite.SqliteRecordIterator(conn, 't')
                            eng.query('select a1, b2 join %s on a1 == b1' % ident, it, eng.TableWriter(out), [], rbql_sqlite.SqliteDbRegistry(conn))
                        else:
                            it = rbql_sqlite.SqliteRecordIterator(conn, ident)
                            eng.query('select a1', it, eng.TableWriter(out), [])
                except BaseException as e:
                    if isinstance(e, (KeyboardInterrupt, SystemExit)):
                        raise
                    err = type(e).__name__
                res.evaluations += 1
                res.traces += 1
                res.states += 1
                res.transitions += len(stmts)
                res.feat('sqlite_identifiers')
                bad = [s for s in stmts if not SQL_OK.match(s)]
                case = {'kind': 'sqlite', 'identifier': ident, 'mode': mode}
                if bad:
                    res.violation('non-whitelisted-sql-reached-sqlite', case, 'only SELECT * FROM <word>;', bad[:3])
                if conn.total_changes != tc0:
                    res.violation('sqlite-database-changed', case, tc0, conn.total_changes)
                if err is not None and not all(c.isalnum() or c == '_' for c in ident):
                    res.nontrivial += 1
                    res.feat('hostile_rejected')
                res.outcome(err or 'ok')
        # ordinary queries (select / update / failing) leave the database file identical
        for q in ('select *', 'update set a2 = "zz"', 'select a1, b2 join t2 on a1 == b1', 'update set a2 = b2 join t2 on a1 == b1', 'select int(a1)', 'select a1 where a1 = 1', 'select a.c1, a["c2"] order by a1'):
            del stmts[:]
            try:
                eng.query(q, rbql_sqlite.SqliteRecordIterator(conn, 't'), eng.TableWriter([]), [], rbql_sqlite.SqliteDbRegistry(conn))
            except Exception:
                pass
            res.evaluations += 1
            res.traces += 1
            bad = [s for s in stmts if not SQL_OK.match(s)]
            if bad:
                res.violation('non-whitelisted-sql-reached-sqlite', {'kind': 'sqlite', 'query': q}, None, bad[:3])
        conn.commit()
        conn.close()
        if sha(db) != h0:
            res.violation('sqlite-file-changed', {'kind': 'sqlite', 'range': [sh['lo'], sh['hi']]}, h0, sha(db))
        res.sample({'hostile_identifiers': ids[:3] + ids[-2:], 'modes': ['join table id in the query text', 'input_table_name']})
    finally:
        shutil.rmtree(scratch, ignore_errors=True)


def part_csv(sh, res):
    rb = tree.load()
    base = '/dev/shm' if os.path.isdir('/dev/shm') else tempfile.gettempdir()
    scratch = tempfile.mkdtemp(prefix='vfc06c.', dir=base)
    try:
        p1, p2, po = [os.path.join(scratch, n) for n in ('t1.csv', 't2.csv', 'out.csv')]
        with open(p1, 'w') as f:
            f.write('name,val\nk,5\nm,x\nk,7\n')
        with open(p2, 'w') as f:
            f.write('name,jv\nk,p\nm,q\n')
        queries = ['select *', 'update set a2 = "U"', 'select a1, b2 join t2.csv on a1 == b1', 'update set a2 = b2 join t2.csv on a1 == b1', 'select int(a2)', 'select a1 order by int(a2)',
                   'select a1 strict left join t2.csv on a2 == b1', 'select a1 join nosuch.csv on a1 == b1', 'select a.name, b.jv join t2.csv on a.name == b.name']
        queries += [t.replace(' join b ', ' join t2.csv ').replace(' join c ', ' join nosuch.csv ') for t, m in c14.PARSE_MISTAKES]
        def stat(p):
            st = os.stat(p)
            return (sha(p), st.st_size, st.st_mtime_ns)
        for q in queries:
            for hdr in (False, True):
                for same_out in (False,):
                    s1, s2 = stat(p1), stat(p2)
                    err = None
                    try:
                        with core.watchdog(10):
                            rb.query_csv(q, p1, ',', 'quoted', po, ',', 'quoted', 'utf-8', [], hdr)
                    except BaseException as e:
                        if isinstance(e, (KeyboardInterrupt, SystemExit)):
                            raise
                        err = type(e).__name__
                    res.evaluations += 1
                    res.traces += 1
                    res.states += 1
                    res.transitions += 1
                    res.feat('csv_cases')
                    if err:
                        res.feat('csv_failing')
                    if stat(p1) != s1 or stat(p2) != s2:
                        res.violation('csv-source-file-modified', {'kind': 'csv', 'query': q, 'with_headers': hdr}, [s1, s2], [stat(p1), stat(p2)])
                    else:
                        res.nontrivial += 1
        res.sample({'csv_queries': len(queries)})
    finally:
        shutil.rmtree(scratch, ignore_errors=True)


def run_shard(sh):
    res = core.Result()
    {'lists': part_lists, 'pandas': part_pandas, 'sqlite': part_sqlite, 'csv': part_csv, 'tuples': part_tuples}[sh['part']](sh, res)
    return res


def main(tier, seed):
    t0 = time.time()
    T = tier == 'thorough'
    shards = []
    stride = 1 if T else 3
    n01 = len(c01.queries('quick', seed)[1])
    n05 = len(c05.space('quick', seed)['qs'])
    n04 = len(c04.space('quick', seed)['qs'])
    for src, n in (('c01', n01), ('c05', n05), ('c04', n04), ('c14', len(c14.poison_queries()))):
        for lo, hi in core.chunks(n, 40):
            shards.append({'part': 'lists', 'tier': tier, 'seed': seed, 'src': src, 'lo': lo, 'hi': hi, 'stride': stride})
    maxlen = 4 if T else 3
    nid = sum(17 ** k for k in range(1, maxlen + 1))
    for lo, hi in core.chunks(nid, 64 if T else 24):
        shards.append({'part': 'sqlite', 'minlen': 1, 'maxlen': maxlen, 'lo': lo, 'hi': hi})
    shards += [{'part': 'pandas'}, {'part': 'csv'}, {'part': 'tuples'}]
    res = core.run_shards('vf.checks.c06', shards)
    return core.finish(PID, tier, seed, res, t0,
        rule='lists: the C01 / C04 / C05 / C14 (query, tables) spaces (every %s table) incl. failing queries, through Python and rbql-js, with snapshot, aliasing and mutate-the-output probes; sqlite: all identifiers up to length %d over 17 hostile symbols '
             'x {join table id in the query text, input table name} with a statement trace; pandas: 18 queries x {named, unnamed} x join; CSV: 37 queries x header flag with sha256/size/mtime; non-trivial = an output existed to mutate / a hostile identifier was rejected' % ('' if T else '3rd', maxlen),
        assumptions=['sqlite statements are observed through set_trace_callback on the connection the iterator uses', 'the empty identifier can only come from the API argument and alters nothing'],
        extra={'sqlite_identifiers': nid},
        min_features={'failing_queries': 1000, 'outputs_mutated': 10000, 'sqlite_identifiers': 5000, 'hostile_rejected': 3000, 'pandas_cases': 30, 'csv_failing': 20, 'js_cases': 10000})


def replay(rep):
    c = rep['case']
    if c.get('kind') == 'list':
        A2, B2 = qcheck.copy_table(c['A']), qcheck.copy_table(c['B'])
        got = drive.run_py(c['query'], A2, B2, c['a_names'], None)
        print(c['query'], 'A before', c['A'], 'after', A2, 'B before', c['B'], 'after', B2)
        return 0 if (A2 == c['A'] and B2 == c['B'] and not qcheck.aliasing(got, A2, B2)) else 1
    print('re-run the check; case:', c)
    return 0
