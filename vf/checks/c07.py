"""C07 - the output header always matches the output records and follows the naming rules.

Space: all select lists of <= 2 (quick) / <= 3 (thorough) items over 17 item kinds (aN, a[N], beyond-header field, a.name, a["name"], a['name'], NR, NF,
expression, literal with commas/brackets/quotes, call with commas, nested list/tuple, *, a.*, AS / as aliases, lone parenthesised tuple; with JOIN also bN, b.name,
b.*, bNR) x {header, no header} x {join, no join} x {plain, DISTINCT, DISTINCT COUNT, TOP}; GROUP BY, EXCEPT and UPDATE forms. Observed three ways:
output_column_names of query_table, first line of query_csv output (writer enforces the width), columns of the pandas result.
"""
import os, time, itertools, shutil, tempfile
from vf import core, refql, qcheck, alphabet, tree, drive, refcsv

PID = 'C07'


def space(tier, seed):
    n1, n2, n3 = alphabet.names(seed, 3)
    bn1, bn2 = alphabet.names(seed + 3, 2)
    if bn1 in (n1, n2, n3) or bn2 in (n1, n2, n3):
        bn1, bn2 = 'jkey', 'jval'
    k, m = alphabet.words(seed, 2)
    F = lambda t, i, *st: ('f', t, i) + tuple(st)
    common = [F('a', 1), F('a', 2, 'a[N]'), F('a', 5), ('NR',), ('NF',), ('cat', F('a', 1), ('lit', 'x')), ('lit', 'x,[y]"z('),
              ('call', 'max', F('a', 1), ('lit', 'x,y')), ('list', F('a', 1), ('tuple', F('a', 2), F('a', 1))), ('star', None), ('star', 'a'),
              ('alias', ('cat', F('a', 1), ('lit', 'y')), 'Tot', 'AS'), ('alias', F('a', 2), 'low_1', 'as'), ('tuple', F('a', 1), F('a', 2)),
              # aliases on expressions whose syntax tree root is a boolean operator, a negation or a conditional
              ('alias', ('or', ('cmp', '==', F('a', 1), ('lit', k)), ('cmp', '==', F('a', 2), ('lit', k))), 'either', 'AS'), ('alias', ('not', ('cmp', '==', F('a', 1), ('lit', k))), 'neg', 'as'),
              ('alias', ('ifelse', ('cmp', '==', F('a', 1), ('lit', k)), F('a', 2), ('lit', 'other')), 'pick', 'AS'),
              # aliases on method calls (the call node is visited before the alias marker when the tree is walked breadth-first)
              ('alias', ('upper', F('a', 1)), 'up', 'AS'), ('alias', ('upper', ('cat', F('a', 2), F('a', 1))), 'both_up', 'as')]
    named = [('named', 'a', n1, 'attr'), ('named', 'a', n2, 'dq'), ('named', 'a', n3, 'sq')]
    joined = [F('b', 1), F('b', 3), F('b', 5), ('star', 'b'), ('bNR',)]     # b3: inside the narrow B? no - beyond it; inside the wide B; b5: beyond A, inside wide B
    joined_named = [('named', 'b', bn2, 'attr')]
    maxn = 3 if tier == 'thorough' else 2
    cases = []   # (q, has_header, has_join)

    def lists(items, n):
        for k_ in range(1, n + 1):
            for tup in itertools.product(items, repeat=k_):
                yield list(tup)
    modes = [(None, None), ('distinct', None), ('count', None), (None, ('TOP', 1))]
    for hdr in (True, False):
        for join in (False, True):
            items = list(common) + (named if hdr else []) + (joined if join else []) + (joined_named if (join and hdr) else [])
            n = maxn if not join else 2
            for lst in lists(items, n):
                if join and len(lst) == 2 and not any(it in joined or it in joined_named for it in lst):
                    continue    # already covered by the no-join slice
                for d, top in modes:
                    q = {'kind': 'select', 'items': lst, 'where': None, 'order': None, 'distinct': d, 'top': top, 'group': None,
                         'join': {'type': 'INNER JOIN', 'keys': [(F('a', 1), F('b', 1))]} if join else None}
                    cases.append((q, hdr, join))
    # scale probes: fixed lists of 4-7 items
    for hdr in (True, False):
        base_items = list(common) + (named if hdr else [])
        for idxs in ((0, 3, 5, 1), (9, 0, 11, 2, 6), (7, 8, 10, 4, 12, 3, 0), (5, 5, 5, 5, 5), (12, 11, 12, 11)):
            lst = [base_items[i] for i in idxs]
            for d, top in modes:
                cases.append(({'kind': 'select', 'items': lst, 'where': None, 'order': None, 'distinct': d, 'top': top, 'group': None, 'join': None}, hdr, False))
    # scale probe: a 12-column header, two-digit field numbers in items
    wide_items = [F('a', 10), F('a', 12), F('a', 11, 'a[N]'), F('a', 1), F('a', 13), ('cat', F('a', 10), ('lit', 'x'))]
    for lst in ([wide_items[0]], [wide_items[1], wide_items[3]], [wide_items[2], wide_items[0], wide_items[4]], [wide_items[5], wide_items[1]], [wide_items[3], wide_items[0], wide_items[1]]):
        for d, top in modes:
            cases.append(({'kind': 'select', 'items': lst, 'where': None, 'order': None, 'distinct': d, 'top': top, 'group': None, 'join': None, 'wide': True}, True, False))
    A_ = lambda kind, arg, sp='U': ('agg', kind, sp, arg)
    for hdr in (True, False):
        nm = ('named', 'a', n1, 'attr') if hdr else F('a', 1)
        for lst in ([F('a', 1), A_('COUNT', ('star', None))], [('alias', A_('COUNT', ('star', None)), 'cnt', 'AS'), A_('MAX', F('a', 2))], [nm, A_('MIN', F('a', 2), 'C')],
                    [A_('ARRAY_AGG', F('a', 2)), ('alias', F('a', 1), 'grp', 'as')]):
            cases.append(({'kind': 'select', 'items': lst, 'where': None, 'order': None, 'distinct': None, 'top': None, 'group': [F('a', 1)], 'join': None}, hdr, False))
        for ex in ([F('a', 1)], [F('a', 3), F('a', 1)]) + (([('named', 'a', n2, 'attr'), F('a', 3)],) if hdr else ()):
            for d_, top_ in modes:
                cases.append(({'kind': 'select', 'items': [('star', None)], 'except_cols': ex, 'where': None, 'order': None, 'distinct': d_, 'top': top_, 'group': None, 'join': None}, hdr, False))
        cases.append(({'kind': 'update', 'assign': [(F('a', 1), ('lit', 'z'))], 'where': None, 'join': None}, hdr, False))
        cases.append(({'kind': 'update', 'assign': [(F('a', 2), F('b', 2))], 'where': None, 'join': {'type': 'LEFT JOIN', 'keys': [(F('a', 1), F('b', 1))]}}, hdr, True))
    tables = [[[k, m, 'c'], [m, k, 'd']], [[k, k, k]], [[m, 'w', 'c'], [m, 'w', 'c'], [k, 'v', 'e']]]
    B = [[k, 'p'], [m, 'q']]
    Bwide = [[k, 'p', 'w3', 'w4', 'w5'], [m, 'q', 'x3', 'x4', 'x5']]
    return dict(cases=cases, tables=tables, B=B, names=[n1, n2, n3], bnames=[bn1, bn2], Bwide=Bwide, bnames_wide=[bn1, bn2, 'jc3', 'jc4', 'jc5'])


def diagnose(q, hdr, exp_header, got):
    if q['kind'] == 'select' and len(q.get('items', [])) == 1 and q['items'][0][0] == 'tuple':
        return 'F11:lone-parenthesised-tuple-counted-as-columns'
    if q['kind'] == 'select' and q.get('distinct') == 'count' and exp_header is not None:
        return 'F3:distinct-count-header-one-short'
    if q['kind'] == 'select':
        for it in q.get('items', []):
            s = refql.strip_alias(it) if it[0] != 'alias' else None
            if s is not None and ((s[0] == 'f' and len(s) > 3 and s[3] == 'a[N]') or (s[0] == 'named' and s[3] in ('dq', 'sq'))):
                return 'F2:subscript-names-lost-on-python39plus'
    return 'header-mismatch'


def judge_header(exp_header, got_header, widths):
    """exp_header from RefQL (None = no header; '<count>' = free name)"""
    if exp_header is None:
        return None if not got_header else 'unexpected header %r' % (got_header,)
    if not got_header:
        return 'no header produced, expected %r' % (exp_header,)
    for w in widths:
        if w != len(got_header):
            return 'header has %d names but a record has %d fields' % (len(got_header), w)
    if len(got_header) != len(exp_header):
        return 'header has %d names, expected %d' % (len(got_header), len(exp_header))
    for x, y in zip(exp_header, got_header):
        if x != '<count>' and x != y:
            return 'name %r, expected %r (%r)' % (y, x, got_header)
    return None


def run_js_route(sh, res):
    """rbql-js header (and records) for the language-neutral select lists, judged by the same naming rule"""
    sp_ = space(sh['tier'], sh['seed'])
    cases = []
    for q, hdr, join in sp_['cases'][sh['lo']:sh['hi']]:
        if q.get('wide'):
            cases.append((q, [['v%d' % i for i in range(1, 13)]], None, ['w%d' % i for i in range(1, 13)], None))
            continue
        if q['kind'] == 'select' and any(refql.strip_alias(it)[0] in ('call', 'tuple') or (it[0] == 'list' and q.get('distinct')) for it in q.get('items', [])):
            continue
        cases.append((q, sp_['tables'][0], (sp_['B'] if join else None), (sp_['names'] if hdr else None), (sp_['bnames'] if (hdr and join) else None)))
        if join:
            cases.append((q, sp_['tables'][0], sp_['Bwide'], (sp_['names'] if hdr else None), (sp_['bnames_wide'] if hdr else None)))
    if sh['lo'] == 0:
        # column names with quote characters and backslashes through both subscript quote styles
        nasty = ["driver's name", 'say "hi"', 'back\\slash']
        for n_ in nasty:
            for st in ('dq', 'sq'):
                for other in (('f', 'a', 2), ('alias', ('f', 'a', 1), 'x', 'AS')):
                    q = {'kind': 'select', 'items': [('named', 'a', n_, st), other], 'where': None, 'order': None, 'distinct': None, 'top': None, 'group': None, 'join': None}
                    cases.append((q, sp_['tables'][0], None, nasty, None))
    n = qcheck.run_js_cases(res, cases, lambda q, A, B, exp, got, why: 'header-mismatch' if 'header' in why else 'js-mismatch')
    res.states += n
    res.transitions += n
    res.nontrivial += res.features.get('js_nonempty_agree', 0)


def run_misfit_names(sh, res):
    """name lists that do not fit the records (every length 0..4 against widths 1..3, input and join side): whatever the engine decides, a header that comes out
    has exactly as many names as every output record has fields (rbql-py and rbql-js)"""
    from vf.checks import c14
    from vf import js
    batch, meta = [], []
    for q, A, B, an, bn, bad in c14.namelen_cases():
        got = drive.run_py(q, qcheck.copy_table(A), qcheck.copy_table(B), an, bn)
        res.evaluations += 1
        res.traces += 1
        res.states += 1
        case = {'route': 'table', 'query': q, 'A': A, 'B': B, 'a_names': an, 'b_names': bn}
        if got['error'] is None and got['header'] is not None:
            ws = sorted(set(len(r) for r in got['records']))
            if ws and ws != [len(got['header'])]:
                res.violation('header-width-mismatch', case, {'header_length': ws}, {'header': got['header'], 'record_widths': ws})
            else:
                res.feat('misfit_names_header_ok' if bad else 'fitting_names_header_ok')
        else:
            res.feat('misfit_names_rejected' if bad else 'fitting_names_no_header')
        c = {'op': 'query', 'query': q.replace('"u"', "'u'"), 'input': A, 'input_names': an}
        if B is not None:
            c['join'] = B
            c['join_names'] = bn
        batch.append(c)
        meta.append((case, bad))
    if js.available():
        for (case, bad), o in zip(meta, js.run_batch(batch)):
            res.evaluations += 1
            res.traces += 1
            if 'error' not in o and o.get('header'):
                ws = sorted(set(len(r) for r in o['records']))
                if ws and ws != [len(o['header'])]:
                    res.violation('js:header-width-mismatch', dict(case, route='rbql-js query_table'), {'header_length': ws}, {'header': o['header'], 'record_widths': ws})
                else:
                    res.feat('js_misfit_names_header_ok' if bad else 'js_fitting_names_header_ok')
            else:
                res.feat('js_misfit_names_rejected' if bad else 'js_fitting_names_no_header')
    # quoted references to columns whose names need escape sequences: the output header carries the column's exact name (both quote styles, both engines)
    nasty = ['\t', 'x\ny', 'p\\"q', "it's", 'a\\b', '\\', '"', "'", 'x y', '\r', '\\n', '\\\\', "\\'", 'é"', '`']
    batch, meta = [], []
    for n1 in nasty:
        for n2 in nasty:
            if n1 == n2:
                continue
            for s1, s2 in (('"', "'"), ("'", '"')):
                text = 'select a[%s], a[%s], NR' % (refql.lit_text(n1, s1), refql.lit_text(n2, s2))
                exp_h = [n1, n2, 'NR']
                got = drive.run_py(text, [['1', '2']], None, [n1, n2], None)
                res.evaluations += 1
                res.traces += 1
                res.states += 1
                case = {'route': 'table', 'query': text, 'a_names': [n1, n2]}
                if got['error'] is not None or got['header'] != exp_h or got['records'] != [['1', '2', 1]]:
                    res.violation('header-mismatch', case, {'header': exp_h}, {'header': got['header'], 'records': got['records'], 'error': got['error']})
                else:
                    res.feat('escaped_names_header_ok')
                    res.nontrivial += 1
                batch.append({'op': 'query', 'query': text, 'input': [['1', '2']], 'input_names': [n1, n2]})
                meta.append((case, exp_h))
    if js.available():
        for (case, exp_h), o in zip(meta, js.run_batch(batch)):
            res.evaluations += 1
            res.traces += 1
            if 'error' in o or o.get('header') != exp_h or o.get('records') != [['1', '2', 1]]:
                res.violation('js:header-mismatch', dict(case, route='rbql-js query_table'), {'header': exp_h}, {'header': o.get('header'), 'records': o.get('records'), 'error': o.get('error')})
            else:
                res.feat('js_escaped_names_header_ok')
    res.sample({'misfit_name_lists': 'lengths 0..4 against widths 1..3', 'queries': c14.NAMELEN_QUERIES})
    return res


def run_shard(sh):
    if sh['route'] == 'misfit':
        return run_misfit_names(sh, core.Result())
    res = core.Result()
    if sh['route'] == 'js':
        run_js_route(sh, res)
        return res
    sp_ = space(sh['tier'], sh['seed'])
    route = sh['route']
    scratch = None
    if route == 'csv':
        base = '/dev/shm' if os.path.isdir('/dev/shm') else tempfile.gettempdir()
        scratch = tempfile.mkdtemp(prefix='vfc07.', dir=base)
    try:
        for q, hdr, join in sp_['cases'][sh['lo']:sh['hi']]:
            a_names = sp_['names'] if hdr else None
            if q.get('wide'):
                a_names = ['w%d' % i for i in range(1, 13)]
            for A, B, b_names in ([([['v%d' % i for i in range(1, 13)]], None, None)] if q.get('wide') else []) or ([(A_, (sp_['B'] if join else None), (sp_['bnames'] if (hdr and join) else None)) for A_ in (sp_['tables'] if route == 'table' else sp_['tables'][:1])]
                                  + ([(sp_['tables'][0], sp_['Bwide'], (sp_['bnames_wide'] if hdr else None))] if join else [])):
                exp = refql.evaluate(q, A, B, a_names, b_names)
                res.evaluations += 1
                res.traces += 1
                res.states += 1
                res.transitions += 1
                case = {'route': route, 'q': q, 'A': A, 'B': B, 'a_names': a_names, 'b_names': b_names}
                if exp.error is not None and exp.error[0] != 'parsing':
                    res.feat('ref_runtime_error_skipped')
                    continue
                if route == 'table':
                    text = refql.render(q)
                    case['query'] = text
                    got = drive.run_py(text, qcheck.copy_table(A), qcheck.copy_table(B), a_names, b_names)
                    if exp.error is not None:
                        why = None if (got['error'] and got['error'][0] == 'parsing') else 'expected a parsing error (star and alias without header)'
                        res.feat('star_alias_noheader')
                    elif got['error'] is not None:
                        why = 'unexpected error %s: %s' % (got['error'][0], got['error'][2][:100])
                    else:
                        why = judge_header(exp.header, got['header'], set(len(r) for r in got['records']))
                    obs = {'header': got['header'], 'error': got['error'], 'widths': sorted(set(len(r) for r in got['records'])) if got['records'] is not None else None}
                elif route == 'csv':
                    why, obs, text = run_csv(scratch, q, A, B, a_names, b_names, exp)
                    case['query'] = text
                else:
                    why, obs, text = run_pandas(q, A, B, a_names, b_names, exp)
                    case['query'] = text
                if why:
                    res.violation(diagnose(q, hdr, exp.header, obs), case, {'header': exp.header, 'error': exp.error}, obs, why)
                else:
                    if exp.header is not None:
                        res.nontrivial += 1
                        if any(n.startswith('col') for n in exp.header):
                            res.feat('colK_names')
                        if q['kind'] == 'select' and any(it[0] == 'star' for it in q.get('items', [])):
                            res.feat('star_expansions')
                    else:
                        res.feat('no_header_expected')
                res.outcome(repr(exp.header))
        if sp_['cases'][sh['lo']:sh['hi']]:
            q0 = sp_['cases'][sh['lo']][0]
            res.sample({'route': route, 'query': refql.render(q0), 'expected_header': refql.evaluate(q0, sp_['tables'][0], sp_['B'] if q0.get('join') else None,
                        sp_['names'] if sp_['cases'][sh['lo']][1] else None, sp_['bnames'] if (sp_['cases'][sh['lo']][1] and q0.get('join')) else None).header})
    finally:
        if scratch:
            shutil.rmtree(scratch, ignore_errors=True)
    return res


def run_csv(scratch, q, A, B, a_names, b_names, exp):
    rb = tree.load()
    hdr = a_names is not None
    p1, p2, po = [os.path.join(scratch, n) for n in ('t1.csv', 't2.csv', 'out.csv')]
    with open(p1, 'w', newline='') as f:
        f.write(refcsv.ref_write(([a_names] if hdr else []) + A, ',', 'quoted'))
    if B is not None:
        with open(p2, 'w', newline='') as f:
            f.write(refcsv.ref_write(([b_names] if hdr else []) + B, ',', 'quoted'))
    text = refql.render(q, join_table_id='t2.csv')
    warns = []
    err = None
    try:
        with core.watchdog(10):
            rb.query_csv(text, p1, ',', 'quoted', po, ',', 'quoted', 'utf-8', warns, hdr)
    except BaseException as e:
        if isinstance(e, (KeyboardInterrupt, SystemExit)):
            raise
        err = drive.classify_py(e)
    if exp.error is not None:
        return (None if (err and err[0] == 'parsing') else 'expected a parsing error'), {'error': err}, text
    if err is not None:
        return 'query_csv failed: %s: %s' % (err[0], err[2][:120]), {'error': err}, text
    with open(po, newline='') as f:
        out = f.read()
    r = refcsv.ref_read(out, ',', 'quoted')
    lines = r.records
    exp_rows = len(exp.records)
    if exp.header is None:
        if len(lines) != exp_rows:
            return 'unexpected header line in CSV output', {'lines': lines[:3]}, text
        return None, {'lines': lines[:1]}, text
    if len(lines) != exp_rows + 1:
        return 'CSV output has %d lines, expected header + %d records' % (len(lines), exp_rows), {'lines': lines[:3]}, text
    why = judge_header(exp.header, lines[0], set(len(x) for x in lines[1:]))
    return why, {'header': lines[0]}, text


def run_pandas(q, A, B, a_names, b_names, exp):
    import pandas as pd
    rb = tree.load()
    hdr = a_names is not None
    df = pd.DataFrame(A, columns=a_names) if hdr else pd.DataFrame(A)
    jdf = None
    if B is not None:
        jdf = pd.DataFrame(B, columns=b_names) if hdr else pd.DataFrame(B)
    text = refql.render(q)
    err = None
    out = None
    try:
        with core.watchdog(10):
            out = rb.query_pandas_dataframe(text, df, [], jdf)
    except BaseException as e:
        if isinstance(e, (KeyboardInterrupt, SystemExit)):
            raise
        err = drive.classify_py(e)
    if exp.error is not None:
        return (None if (err and err[0] == 'parsing') else 'expected a parsing error'), {'error': err}, text
    if err is not None:
        return 'query_pandas_dataframe failed: %s: %s' % (err[0], err[2][:120]), {'error': err}, text
    cols = None if isinstance(out.columns, pd.RangeIndex) else [str(c) for c in out.columns]
    if exp.header is None:
        return (None if cols is None else 'unexpected column names %r' % (cols,)), {'columns': cols}, text
    if cols is None and len(exp.records) == 0 and False:
        return None, {'columns': cols}, text
    why = judge_header(exp.header, cols, set([out.shape[1]]) if len(out) else set())
    return why, {'columns': cols}, text


def main(tier, seed):
    t0 = time.time()
    sp_ = space(tier, seed)
    n = len(sp_['cases'])
    shards = []
    for route, parts in (('table', 64), ('csv', 32), ('pandas', 32), ('js', 16)):
        for lo, hi in core.chunks(n, parts):
            shards.append({'tier': tier, 'seed': seed, 'route': route, 'lo': lo, 'hi': hi})
    shards.append({'tier': tier, 'seed': seed, 'route': 'misfit', 'lo': 0, 'hi': 0})
    res = core.run_shards('vf.checks.c07', shards)
    return core.finish(PID, tier, seed, res, t0,
        rule='all select lists up to the item bound over 17 (+4 with JOIN) item kinds x {header, no header} x {join, no join} x {plain, DISTINCT, DISTINCT COUNT, TOP}, plus GROUP BY / EXCEPT / UPDATE forms, '
             'each observed through query_table (3 tables), query_csv (file to file) and query_pandas_dataframe; column-name lists of every length 0..4 against tables of width 1..3 (input and join side, 8 queries, rbql-py and rbql-js): a header that comes out fits the records; quoted references to 15 names that need escape sequences (both quote styles, both engines) name the column exactly; non-trivial = a header is expected',
        assumptions=['the name of the DISTINCT COUNT count column is left free (only its presence is required)', 'naming rule as stated in the property: alias; source column name for field / star forms; identifier for bare variables; colK otherwise'],
        extra={'cases': n, 'item_bound': 3 if tier == 'thorough' else 2},
        min_features={'colK_names': 500, 'star_expansions': 500, 'no_header_expected': 200, 'star_alias_noheader': 10, 'js_cases': 1000, 'misfit_names_rejected': 500, 'js_misfit_names_rejected': 500, 'fitting_names_header_ok': 50, 'escaped_names_header_ok': 300, 'js_escaped_names_header_ok': 300})


def replay(rep):
    c = rep['case']
    q = qcheck.detuple(c['q'])
    exp = refql.evaluate(q, c['A'], c['B'], c['a_names'], c['b_names'])
    got = drive.run_py(refql.render(q), qcheck.copy_table(c['A']), qcheck.copy_table(c['B']), c['a_names'], c['b_names'])
    print('query:', refql.render(q), '\nexpected header:', exp.header, '\nengine:', got['header'], got['error'], 'widths', sorted(set(len(r) for r in (got['records'] or []))))
    if exp.error is not None:
        return 0 if got['error'] and got['error'][0] == 'parsing' else 1
    if got['error'] is not None:
        return 1
    return 1 if judge_header(exp.header, got['header'], set(len(r) for r in got['records'])) else 0
