"""C10 - CSV written by RBQL reads back as the identical table, in every dialect.

Space: tables over a field alphabet {quote, every delimiter character, space, tab, CR, LF, ordinary, non-ASCII} - all 1-2 field rows over fields of <= 2
characters, single and paired fields of length 3 (thorough: 4, and all 2-field rows over fields <= 3), 3-field rows and 2-row tables over fields <= 1 -
x 31 (policy, delimiter) configurations incl. multi-character and non-ASCII delimiters x line separators x encodings; all 256 latin-1 code points.
Oracle: a table is representable iff the reference writer/reader pair round-trips it; then the real writer -> real reader must return it with no
warnings from either side. For every table: delimiter inside a simple/whitespace field, or a None, must produce the warning.
"""
import io, time, itertools
from vf import core, tree, refcsv, alphabet

PID = 'C10'


def configs():
    out = []
    for pol in ('simple', 'quoted', 'quoted_rfc'):
        for d in (',', ';', '\t', '|', '::', ':;', '§'):
            out.append((pol, d))
    for pol, d in (('quoted', '.'), ('simple', '\\'), ('quoted_rfc', '^'), ('quoted', '$'), ('quoted_rfc', ']'), ('simple', '*'), ('quoted', '(')):
        out.append((pol, d))       # delimiters that are special inside regular expressions
    out.append(('quoted', ' '))
    out.append(('whitespace', ' '))
    out.append(('monocolumn', ''))
    return out


def field_alphabet(dlm, o1, o2):
    syms = ['"']
    for c in dlm:
        if c not in syms:
            syms.append(c)
    for c in (' ', '\t', '\r', '\n', o1, o2):
        if c not in syms:
            syms.append(c)
    return syms


def strings(syms, n):
    for k in range(0, n + 1):
        for t in itertools.product(syms, repeat=k):
            yield ''.join(t)


def norm_rfc(t):
    return [[f.replace('\r\n', '\n').replace('\r', '\n') for f in r] for r in t]


def representable(table, dlm, policy):
    if any(f is None or isinstance(f, list) for r in table for f in r):
        return False
    if policy == 'monocolumn' and any(len(r) != 1 for r in table):
        return False
    try:
        text = refcsv.ref_write(table, dlm if dlm else '', policy)
    except AssertionError:
        return False
    if policy == 'monocolumn':
        r = refcsv.ref_read(text, '\x00', 'monocolumn')
    else:
        r = refcsv.ref_read(text, dlm, policy)
    if r.error is not None or r.first_defective_line is not None:
        return False
    exp = norm_rfc(table) if policy == 'quoted_rfc' else table
    return r.records == exp


def roundtrip(rc, eng, table, dlm, policy, encoding, line_sep):
    """real writer -> real reader. Returns (records | None, writer_warnings, reader_warnings, error)"""
    try:
        out = io.StringIO() if encoding is None else io.BytesIO()
        w = rc.CSVWriter(out, False, encoding, dlm, policy, line_separator=line_sep)
        for rec in table:
            w.write([list(f) if isinstance(f, list) else f for f in rec])       # private copies, also of list-valued cells: the writer normalises them in place
        w.finish()
        ww = w.get_warnings()
        data = out.getvalue()
    except eng.RbqlIOHandlingError as e:
        return None, [], [], 'write-io:' + str(e)
    except Exception as e:
        return None, [], [], 'write-EXC:' + repr(e)
    try:
        src = io.StringIO(data) if encoding is None else io.BytesIO(data)
        it = rc.CSVRecordIterator(src, encoding, dlm, policy)
        recs = it.get_all_records()
        return recs, ww, it.get_warnings(), None
    except eng.RbqlIOHandlingError as e:
        return None, ww, [], 'read-io:' + str(e)
    except Exception as e:
        return None, ww, [], 'read-EXC:' + repr(e)


def judge(res, rc, eng, table, dlm, policy, encoding=None, line_sep='\n'):
    res.evaluations += 1
    res.traces += 1
    rep = representable(table, dlm, policy)
    recs, ww, rw, err = roundtrip(rc, eng, table, dlm, policy, encoding, line_sep)
    case = {'table': table, 'dlm': dlm, 'policy': policy, 'encoding': encoding, 'line_sep': line_sep}
    if rep:
        res.nontrivial += 1
        res.feat('representable')
        exp = norm_rfc(table) if policy == 'quoted_rfc' else table
        if len(set(len(r) for r in table)) > 1:
            # a ragged table is reported as such by the reader (C14 decides that warning); it says nothing about the round trip
            rw = [w for w in rw if 'not consistent' not in w]
        if err is not None or recs != exp or ww or rw:
            sig = 'roundtrip-mismatch'
            res.violation(sig, case, {'records': exp, 'warnings': []}, {'records': recs, 'writer_warnings': ww, 'reader_warnings': rw, 'error': err})
        if policy == 'quoted_rfc' and any('\n' in f or '\r' in f for r in table for f in r):
            res.feat('rfc_linebreak_fields')
    else:
        res.feat('unrepresentable')
    # lossy output is never silent
    if err is None or not (err or '').startswith('write'):
        has_none = any(f is None or (isinstance(f, list) and any(x is None for x in f)) for r in table for f in r)
        if has_none and not any('None' in w for w in ww):
            res.violation('silent-none', case, 'warning about None', ww)
        if policy in ('simple', 'whitespace') and dlm and any(isinstance(f, str) and dlm in f for r in table for f in r):
            res.feat('delimiter_in_simple_field')
            if not any('separator' in w for w in ww):
                res.violation('silent-delimiter-in-field', case, 'warning about separator in fields', ww)
    res.outcome((rep, err is None))


def run_js_shard(sh, res):
    """rbql-js writer -> rbql-js reader (stream and bulk) on all small tables; same oracle"""
    from vf import js
    if not js.available():
        res.feat('js_skipped')
        return
    o1, o2 = sh['o']
    pol, dlm = sh['cfg']
    syms = field_alphabet(dlm, o1, o2)
    F = list(strings(syms, 2))
    tables = [[[f]] for f in F] + [[[f, g]] for f in F for g in F[:sh['pair_limit']]] + [[[f], [g, f]] for f in F[:10] for g in F[:10]] + [[[None, f]] for f in F[:10]] + [[[f, ['x', None]]] for f in F[:6]] + [[[['p', 'q'], f], [[None], f]] for f in F[:4]]
    batch = [{'op': 'write', 'table': t, 'encoding': 'utf-8', 'dlm': dlm, 'policy': pol} for t in tables]
    outs = js.run_batch(batch)
    rbatch, rmeta = [], []
    for t, out in zip(tables, outs):
        res.evaluations += 1
        res.traces += 1
        res.states += 1
        res.transitions += 1
        case = {'lang': 'js', 'table': t, 'dlm': dlm, 'policy': pol}
        has_none = any(f is None or (isinstance(f, list) and any(x is None for x in f)) for r in t for f in r)
        if 'error' in out:
            if representable(t, dlm, pol):
                res.violation('js:roundtrip-mismatch', case, 'written', out)
            continue
        ww = out.get('warnings', [])
        if has_none and not any('null' in w or 'None' in w for w in ww):
            res.violation('js:silent-none', case, 'warning about null', ww)
        if pol in ('simple', 'whitespace') and dlm and any(isinstance(f, str) and dlm in f for r in t for f in r) and not any('separator' in w for w in ww):
            res.violation('js:silent-delimiter-in-field', case, 'warning about separator', ww)
        if representable(t, dlm, pol):
            if ww:
                res.violation('js:roundtrip-mismatch', case, {'writer_warnings': []}, ww)
            for mode in ('stream', 'bulk'):
                c = {'op': 'read', 'mode': mode, 'encoding': 'utf-8', 'dlm': dlm, 'policy': pol, 'has_header': False, 'comment_prefix': None}
                if mode == 'bulk':
                    c['hex'] = out['hex']
                else:
                    c['pieces'] = [out['hex']] if out['hex'] else []
                rbatch.append(c)
                rmeta.append((t, mode))
    routs = js.run_batch(rbatch)
    for (t, mode), out in zip(rmeta, routs):
        exp = norm_rfc(t) if pol == 'quoted_rfc' else t
        ragged = len(set(len(r) for r in t)) > 1
        warns = [w for w in out.get('warnings', []) if not (ragged and 'not consistent' in w)]
        res.evaluations += 1
        res.traces += 1
        res.nontrivial += 1
        res.feat('js_roundtrips')
        if 'error' in out or out.get('records') != exp or warns:
            res.violation('js:roundtrip-mismatch', {'lang': 'js', 'table': t, 'dlm': dlm, 'policy': pol, 'read_mode': mode}, {'records': exp, 'warnings': []}, out)
    if sh.get('bigfile'):
        # CRLF output larger than the 64 KiB stream chunk: every alignment of the CR/LF pair against the chunk boundary
        big = [[['p' * (1 + shift), 'q']] + [['aaaa', 'b']] * 9000 for shift in range(8)]
        wouts = js.run_batch([{'op': 'write', 'table': t, 'encoding': 'utf-8', 'dlm': dlm, 'policy': pol, 'line_separator': '\r\n'} for t in big])
        routs2 = js.run_batch([{'op': 'read', 'mode': 'file_stream', 'hex': w.get('hex', ''), 'encoding': 'utf-8', 'dlm': dlm, 'policy': pol, 'has_header': False, 'comment_prefix': None} for w in wouts])
        for t, out in zip(big, routs2):
            res.evaluations += 1
            res.traces += 1
            res.feat('js_bigfile_roundtrips')
            if 'error' in out or out.get('records') != t or out.get('warnings'):
                res.violation('js:roundtrip-mismatch', {'lang': 'js', 'bigfile_rows': len(t), 'first_row': t[0], 'line_separator': 'CRLF', 'dlm': dlm, 'policy': pol},
                              {'n_records': len(t)}, {'n_records': len(out.get('records') or []), 'warnings': out.get('warnings'), 'error': out.get('error'), 'tail': (out.get('records') or [])[-2:]})
    res.sample({'js_roundtrip_tables': len(tables), 'dlm': dlm, 'policy': pol})


def run_stdout_env_shard(sh, res):
    """the writer over the process's own text stdout (an io.TextIOWrapper whose encoding comes from the environment), in child interpreters under hostile environments:
    with encoding='utf-8' the bytes that reach the pipe are UTF-8 and read back to the table, whatever the locale / PYTHONIOENCODING says"""
    import os, sys, json, subprocess
    tables = [[['\u00e9', '\u20ac'], ['x', 'caf\u00e9,"q"']], [['plain', 'ascii']], [['\U0001F600', '\u0436\n2']], [['\xff\xe0', '\xa0']]]
    code = ("import sys, json; sys.path.insert(0, %r); from vf import tree; rc = tree.csvmod(); spec = json.loads(sys.argv[1]); "
            "w = rc.CSVWriter(sys.stdout, False, spec['enc'], ',', spec['pol']); [w.write(list(r)) for r in spec['table']]; w.finish(); sys.stdout.flush()" % core.VERIF)
    for envo, unset in sh['envs']:
        env = dict(os.environ)
        for k in unset:
            env.pop(k, None)
        env.update(envo)
        env['PYTHONWARNINGS'] = 'ignore'
        for t in tables:
            for pol in ('quoted', 'quoted_rfc'):
                for enc in ('utf-8', 'latin-1'):
                    if enc == 'latin-1' and any(ord(c) > 255 for r in t for f in r for c in f):
                        continue
                    if pol == 'quoted' and any('\n' in f for r in t for f in r):
                        continue
                    p = subprocess.run([sys.executable, '-c', code, json.dumps({'enc': enc, 'pol': pol, 'table': t})], stdout=subprocess.PIPE, stderr=subprocess.PIPE, env=env, timeout=120)
                    res.evaluations += 1
                    res.traces += 1
                    res.states += 1
                    case = {'kind': 'stdout-under-environment', 'table': t, 'policy': pol, 'encoding': enc, 'process_environment': envo}
                    got = None
                    if p.returncode == 0:
                        try:
                            got = refcsv.ref_read(p.stdout.decode(enc), ',', pol).records
                        except Exception as e:
                            got = 'undecodable output: %r' % p.stdout[:60]
                    if p.returncode != 0 or got != t:
                        res.violation('roundtrip-mismatch', case, {'records': t}, {'exit': p.returncode, 'records': got, 'stderr': p.stderr.decode('utf-8', 'replace')[-300:]})
                    else:
                        res.feat('stdout_under_environment_cases')
                        res.nontrivial += 1


def run_shard(sh):
    res = core.Result()
    if sh['kind'] == 'stdout_env':
        run_stdout_env_shard(sh, res)
        return res
    if sh['kind'] == 'js':
        run_js_shard(sh, res)
        return res
    rc, eng = tree.csvmod(), tree.engine()
    o1, o2 = sh['o']
    pol, dlm = sh['cfg']
    syms = field_alphabet(dlm, o1, o2)
    kind = sh['kind']
    if kind == 'pairs2':
        F = list(strings(syms, 2))
        lo, hi = sh['lo'], sh['hi']
        for i, f in enumerate(F):
            if lo <= i < hi:
                judge(res, rc, eng, [[f]], dlm, pol)
                for g in F:
                    judge(res, rc, eng, [[f, g]], dlm, pol)
        res.states += (hi - lo) * (len(F) + 1)
        res.transitions += (hi - lo) * (len(F) + 1)
        res.sample({'table': [[F[min(hi, len(F)) - 1], F[3]]], 'dlm': dlm, 'policy': pol})
    elif kind == 'len3':
        n = sh['n']
        for t in itertools.product(syms, repeat=n):
            f = ''.join(t)
            judge(res, rc, eng, [[f]], dlm, pol)
            judge(res, rc, eng, [[f, o1]], dlm, pol)
            judge(res, rc, eng, [[o1, f]], dlm, pol)
            res.states += 3
            res.transitions += 3
    elif kind == 'shape':
        F = list(strings(syms, 1))
        for t in itertools.product(F, repeat=3):
            judge(res, rc, eng, [list(t)], dlm, pol)
            res.states += 1
        rows = [[f] for f in F] + [[f, g] for f in F for g in F]
        for r1 in rows:
            for r2 in rows:
                judge(res, rc, eng, [r1, r2], dlm, pol)
                res.states += 1
        res.transitions += res.states
        # scale probe: rows of 5, 10 and 12 fields (every field value at every position of a 5-field row; all-equal and alternating wide rows)
        for f in F:
            for pos in range(5):
                row = [o1] * 5
                row[pos] = f
                judge(res, rc, eng, [row], dlm, pol)
            judge(res, rc, eng, [[f] * 10, [f, o1] * 6], dlm, pol)
            res.feat('wide_rows')
        # None cells, also inside list-valued cells (ARRAY_AGG / [a1, a2] results)
        for f in F:
            judge(res, rc, eng, [[None, f]], dlm, pol)
            judge(res, rc, eng, [[f], [None]], dlm, pol)
            if pol != 'monocolumn':
                judge(res, rc, eng, [[f, ['x', None]]], dlm, pol)
                judge(res, rc, eng, [[['x', 'y'], f], [[None], f]], dlm, pol)
                res.feat('nested_none_cases')
        # line separators x encodings
        for ls in ('\n', '\r\n', '\r'):
            for enc in (None, 'utf-8', 'latin-1'):
                for f in F:
                    for g in F:
                        if enc == 'latin-1' and any(ord(c) > 255 for c in f + g + dlm):
                            continue
                        judge(res, rc, eng, [[f, g], [g]], dlm, pol, enc, ls)
                        res.feat('linesep_encoding_cases')
    elif kind == 'latin1':
        for cp in range(256):
            c = chr(cp)
            for tab in ([[c]], [['o' + c + 'o', c]], [[c, 'x'], ['y' + c]]):
                judge(res, rc, eng, tab, dlm, pol, 'latin-1', '\n')
                res.feat('latin1_cases')
            res.states += 3
            res.transitions += 3
    elif kind == 'manylines':
        # scale probe: quoted_rfc records spanning 2..40 physical lines (mixed LF / CRLF / CR breaks inside the field)
        for nl in (2, 3, 8, 9, 16, 17, 33, 40):
            for br in ('\n', '\r\n', '\r'):
                f = br.join('l%d' % i for i in range(nl))
                for enc in (None, 'utf-8'):
                    judge(res, rc, eng, [[f, 'x'], ['y', 'z']], dlm, pol, enc, '\n')
                    judge(res, rc, eng, [['p', f + '"q']], dlm, pol, enc, '\r\n')
                    res.feat('manyline_records')
                res.states += 2
                res.transitions += 2
    elif kind == 'long':
        # size thresholds: fields whose special characters sit right at 1024 / 8192 (reader chunk, text wrapper buffer) boundaries
        for L in (1022, 1023, 1024, 1025, 8190, 8191, 8192, 8193):
            for tail in ('"', dlm if dlm else 'x', ' ', '\n' if pol == 'quoted_rfc' else 'y', o2):
                f = (o1 * (L - 1)) + tail
                for enc in (None, 'utf-8'):
                    judge(res, rc, eng, [[f, 'x'], ['y', f]] if pol != 'monocolumn' else [[f], ['y']], dlm, pol, enc, '\n')
                    judge(res, rc, eng, [[tail + f + tail]], dlm, pol, enc, '\r\n')
                    res.feat('long_field_cases')
                res.states += 4
                res.transitions += 4
    elif kind == 'pairs3':
        F = list(strings(syms, 3))
        lo, hi = sh['lo'], sh['hi']
        for i, f in enumerate(F):
            if lo <= i < hi:
                for g in F:
                    judge(res, rc, eng, [[f, g]], dlm, pol)
        res.states += (hi - lo) * len(F)
        res.transitions += (hi - lo) * len(F)
    return res


def main(tier, seed):
    t0 = time.time()
    o = alphabet.ordinary(seed, 2)
    if ord(o[0]) < 128 and ord(o[1]) < 128:
        o = [o[0], 'é']
    shards = []
    for cfg in configs():
        n2 = len(list(strings(field_alphabet(cfg[1], o[0], o[1]), 2)))
        for lo, hi in core.chunks(n2, 2):
            shards.append({'kind': 'pairs2', 'cfg': cfg, 'o': o, 'lo': lo, 'hi': hi})
        shards.append({'kind': 'len3', 'cfg': cfg, 'o': o, 'n': 3})
        shards.append({'kind': 'shape', 'cfg': cfg, 'o': o})
        shards.append({'kind': 'long', 'cfg': cfg, 'o': o})
        if cfg[0] == 'quoted_rfc':
            shards.append({'kind': 'manylines', 'cfg': cfg, 'o': o})
        shards.append({'kind': 'len3', 'cfg': cfg, 'o': o, 'n': 4})
        n3 = len(list(strings(field_alphabet(cfg[1], o[0], o[1]), 3)))
        for lo, hi in core.chunks(n3, 8):
            shards.append({'kind': 'pairs3', 'cfg': cfg, 'o': o, 'lo': lo, 'hi': hi})
        if tier == 'thorough':
            shards.append({'kind': 'len3', 'cfg': cfg, 'o': o, 'n': 5})
            shards.append({'kind': 'len3', 'cfg': cfg, 'o': o, 'n': 6})
    for cfg in (('simple', ','), ('quoted', ','), ('quoted_rfc', ','), ('simple', '\t'), ('quoted', ';'), ('monocolumn', '')):
        shards.append({'kind': 'latin1', 'cfg': cfg, 'o': ['o', 'e']})
    for cfg in configs():
        if cfg[0] != 'monocolumn':
            shards.append({'kind': 'js', 'cfg': cfg, 'o': o, 'pair_limit': 73 if tier == 'thorough' else 24, 'bigfile': cfg in (('quoted', ','), ('simple', '\t'))})
    hostile = [({'LC_ALL': 'C', 'PYTHONUTF8': '0', 'PYTHONCOERCECLOCALE': '0'}, ('LANG', 'LC_CTYPE', 'PYTHONIOENCODING')), ({'PYTHONIOENCODING': 'latin-1', 'LC_ALL': 'C.UTF-8'}, ('LANG',)),
               ({'LC_ALL': 'C.UTF-8'}, ('LANG', 'PYTHONIOENCODING')), ({'PYTHONIOENCODING': 'utf-16'}, ())]
    for h in hostile:
        shards.append({'kind': 'stdout_env', 'envs': [h]})
    shards.sort(key=lambda s: {'stdout_env': 1, 'pairs3': 0, 'pairs2': 1, 'shape': 2, 'len3': 3, 'latin1': 4, 'long': 2, 'js': 1, 'manylines': 3}[s['kind']])
    res = core.run_shards('vf.checks.c10', shards)
    return core.finish(PID, tier, seed, res, t0,
        rule='tables over the field alphabet {quote, delimiter characters, space, tab, CR, LF, ordinary, non-ASCII}: all 1-2 field rows over fields <= 2 chars, fields of length 3-4 (thorough 5-6; and all 2-field rows over fields <= 3) '
             'alone and paired, 3-field rows, 2-row tables, None cells, x 31 (policy, delimiter) configurations (single-, multi-character, non-ASCII) x line separators x encodings; all 256 latin-1 code points; '
             'non-trivial = representable by the reference writer/reader pair (then the real pair must round-trip with no warnings)',
        assumptions=['representable is decided by RefCSV (ref_read(ref_write(t)) == t, CR/CRLF normalised to LF under quoted_rfc)', 'no leading BOM character in the first field'],
        extra={'configurations': len(configs()), 'ordinary': o},
        min_features={'representable': 50000, 'unrepresentable': 10000, 'rfc_linebreak_fields': 1000, 'delimiter_in_simple_field': 1000, 'latin1_cases': 1000, 'linesep_encoding_cases': 1000, 'long_field_cases': 500, 'js_roundtrips': 5000, 'stdout_under_environment_cases': 30})


def replay(rep):
    c = rep['case']
    rc, eng = tree.csvmod(), tree.engine()
    res = core.Result()
    judge(res, rc, eng, c['table'], c['dlm'], c['policy'], c.get('encoding'), c.get('line_sep', '\n'))
    for v in res.violations:
        print(v['sig'], v['expected'], v['observed'])
    print('representable by reference:', representable(c['table'], c['dlm'], c['policy']))
    return 1 if res.violations else 0
