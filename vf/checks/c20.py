"""C20 - the JavaScript stream reader is independent of chunk boundaries.

Explorer inside the node driver: a Readable pushes a prescribed composition of the bytes, one piece per event-loop turn; ALL 2^(n-1) byte compositions
of ALL inputs of n <= 5 (quick) / <= 6 (thorough) bytes over {o, quote, comma, LF, CR, #} x 5 policies x comment prefix x header, and all compositions of
UTF-8 samples with 2-, 3-, 4-byte characters and a BOM (utf-8 and binary). Oracle: every delivery equals the one-piece delivery, which equals the bulk
(csv_path) reader and the RefCSV reader; valid UTF-8 is never rejected. Large files: real files whose critical byte sequences straddle the 64 KiB
default chunk boundary of fs.createReadStream at every offset.
"""
import os, re, time, itertools, tempfile
from vf import core, tree, refcsv, alphabet, js
from vf.checks import c12

PID = 'C20'
POLICIES = [('simple', ','), ('quoted', ','), ('quoted_rfc', ','), ('whitespace', ' '), ('monocolumn', '')]
SAMPLES = ['é,€\n', '\U0001F600"x"\r\n', '﻿a,b\r\nc', '"é\r\n€",z\n', 'é\r', '\r\n\r\né', 'ж#\n#ж\n', '"\U0001F600""\r"\n', '﻿#é\n€', 'a é\r\nж  b', 'x\ufffd,\ufffd\n']


def js_result_to_ref_shape(out, has_header):
    if 'error' in out:
        e = out['error']
        return {'error': ('io' if e.get('name') == 'RbqlIOHandlingError' else 'EXC:' + str(e.get('name'))) + ':' + e.get('msg', '')}
    return {'header': out.get('header') if has_header else None, 'records': out.get('records'), 'warnings': out.get('warnings', [])}


def compare_with_ref(shape, r, has_header):
    """the same judgement as C12.compare_with_ref, on the JS reader's one-piece result"""
    if 'error' in shape:
        base = (None, None, (), shape['error'])
    else:
        base = (shape['header'], shape['records'], tuple(shape['warnings']), None)
    return c12.compare_with_ref(base, r, has_header)


def run_shard(sh):
    res = core.Result()
    cases, meta = [], []
    if sh['kind'] == 'ascii':
        syms = sh['syms']
        policy, dlm = sh['policy']
        for has_header in (False, True):
            for comment in (None, '#'):
                for n in range(sh['minlen'], sh['maxlen'] + 1):
                    for tup in itertools.product(syms, repeat=max(0, n - len(sh['first']))):
                        if n < len(sh['first']):
                            continue
                        text = sh['first'] + ''.join(tup)
                        if sh.get('textstream'):
                            # the 'binary' encoding over a text stream: the same compositions delivered as latin-1 strings instead of Buffers
                            cases.append({'op': 'readcomp', 'hex': text.encode('utf-8').hex(), 'encoding': 'binary', 'dlm': dlm, 'policy': policy, 'has_header': has_header, 'comment_prefix': comment, 'text_stream': True})
                            meta.append((text, text, 'binary', dlm, policy, has_header, comment))
                            continue
                        cases.append({'op': 'readcomp', 'hex': text.encode('utf-8').hex(), 'encoding': 'utf-8', 'dlm': dlm, 'policy': policy, 'has_header': has_header, 'comment_prefix': comment,
                                      'also_slow_consumer': sh.get('slow', False)})
                        meta.append((text, text, 'utf-8', dlm, policy, has_header, comment))
    elif sh['kind'] == 'medium':
        from vf.checks import c12 as _c12
        s_ = sh['text']
        data = s_.encode('utf-8')
        for policy, dlm in POLICIES:
            for has_header in (False, True):
                for comment in (None, '#'):
                    cases.append({'op': 'readcuts', 'hex': data.hex(), 'encoding': 'utf-8', 'dlm': dlm, 'policy': policy, 'has_header': has_header, 'comment_prefix': comment, 'maxcuts': sh['maxcuts']})
                    meta.append((s_, s_, 'utf-8', dlm, policy, has_header, comment))
    elif sh['kind'] == 'longcuts':
        s_ = sh['text']
        data = s_.encode('utf-8')
        for policy, dlm in (('quoted', ','), ('quoted_rfc', ','), ('simple', ',')):
            cases.append({'op': 'readcutlist', 'hex': data.hex(), 'encoding': 'utf-8', 'dlm': dlm, 'policy': policy, 'has_header': False, 'comment_prefix': None,
                          'cuts': sh['cuts'], 'uniform': sh['uniform']})
            meta.append((s_, s_, 'utf-8', dlm, policy, False, None))
    elif sh['kind'] == 'utf8':
        s = sh['sample']
        data = s.encode('utf-8')
        for enc in ('utf-8', 'binary'):
            for policy, dlm in POLICIES:
                for has_header in (False, True):
                    for comment in (None, '#'):
                        cases.append({'op': 'readcomp', 'hex': data.hex(), 'encoding': enc, 'dlm': dlm, 'policy': policy, 'has_header': has_header, 'comment_prefix': comment})
                        meta.append((s, data.decode('utf-8' if enc == 'utf-8' else 'latin-1'), enc, dlm, policy, has_header, comment))
                        if enc == 'binary':
                            cases.append({'op': 'readcomp', 'hex': data.hex(), 'encoding': enc, 'dlm': dlm, 'policy': policy, 'has_header': has_header, 'comment_prefix': comment, 'text_stream': True})
                            meta.append((s, data.decode('latin-1'), enc, dlm, policy, has_header, comment))
    elif sh['kind'] == 'rawbytes':
        # inputs that are NOT valid UTF-8 (truncated at the end, a lone continuation byte, 0xFF): every delivery must report what bulk reading reports
        data = bytes.fromhex(sh['hex'])
        for policy, dlm in POLICIES:
            cases.append({'op': 'readcomp', 'hex': data.hex(), 'encoding': 'utf-8', 'dlm': dlm, 'policy': policy, 'has_header': False, 'comment_prefix': None})
            meta.append((data.decode('latin-1'), None, 'utf-8', dlm, policy, False, None))
    else:
        return run_bigfile(sh, res)
    outs = js.run_batch(cases)
    for (orig, text, enc, dlm, policy, has_header, comment), out, cs in zip(meta, outs, cases):
        n = len(orig.encode('utf-8')) if text is not None else len(orig)
        if cs.get('text_stream'):
            res.feat('text_stream_deliveries', out['executions'])
        res.evaluations += out['executions'] + 2
        res.traces += out['executions'] + 2
        res.states += (1 << n) if n <= 12 else out['executions'] + 1
        if n > 100:
            res.feat('long_input_deliveries', out['executions'])
        res.transitions += out['chunks'] + 1
        case = {'text': orig, 'encoding': enc, 'dlm': dlm, 'policy': policy, 'has_header': has_header, 'comment': comment}
        if cs.get('text_stream'):
            case['text_stream'] = True
        base = js_result_to_ref_shape(out['base'], has_header)
        bulk = js_result_to_ref_shape(out['bulk'], has_header)
        multibyte = any(ord(c) > 127 for c in orig)
        if multibyte:
            res.feat('multibyte_inputs')
        if '\r\n' in orig:
            res.feat('crlf_inputs')
        if out['executions'] > 0 and ('\r' in orig or '"' in orig or multibyte):
            res.nontrivial += out['executions']
        if out['ndiff']:
            d = out['diffs'][0]
            got = js_result_to_ref_shape(d['result'], has_header)
            sig = 'chunk-dependence'
            if enc == 'utf-8' and multibyte and 'error' in got and 'decode' in got['error']:
                sig = 'F6:split-multibyte-character-rejected'
            c = dict(case); c['pieces'] = d['pieces']; c['differing_compositions'] = out['ndiff']
            res.violation(sig, c, base, got, '%d of %d compositions differ from the one-piece delivery' % (out['ndiff'], out['executions']))
        if base != bulk:
            sig = 'stream-vs-bulk'
            if enc == 'utf-8' and orig.startswith('\ufeff') and 'warnings' in bulk and 'warnings' in base and [w for w in bulk['warnings'] if 'BOM' not in w] == base['warnings'] and bulk.get('records') == base.get('records'):
                sig = 'F14:js-stream-reader-drops-bom-silently'
            res.violation(sig, case, {'bulk': bulk}, {'stream': base})
        if text is None:
            res.feat('invalid_utf8_inputs')
            case['hex'] = orig.encode('latin-1').hex()
            if 'error' not in base or not base['error'].startswith('io:'):
                res.violation('invalid-utf8-accepted', case, 'IO handling error', base)
            continue
        bom = '﻿' if enc == 'utf-8' else '\xef\xbb\xbf'
        r = refcsv.ref_read(text, dlm, policy, has_header, comment, bom)
        why = compare_with_ref(base, r, has_header)
        if why:
            sig = 'F14:js-stream-reader-drops-bom-silently' if (why.startswith('BOM warning False') and enc == 'utf-8') else 'reader-vs-reference'
            res.violation(sig, case, r.key(), base, why)
        res.outcome(repr(base)[:80])
    if cases:
        k = len(cases) // 2
        res.sample({'input': meta[k][0], 'policy': meta[k][4], 'compositions': outs[k]['executions'] + 1})
    return res


def run_bigfile(sh, res):
    """critical sequences placed so that each of their internal byte boundaries coincides with the 64 KiB chunk boundary"""
    CH = 65536
    cases, meta = [], []
    for name, crit, policy in sh['crits']:
        cb = crit.encode('utf-8')
        for off in range(0, len(cb) + 1):
            # filler lines of 8 bytes 'aaaa,bb\n' then padding so that crit starts at CH - off
            start = CH - off
            nfull = start // 8 - 1
            last = start - nfull * 8          # 8..15 bytes: one longer line so that the filler ends with a line break exactly at `start`
            filler = b'aaaa,bb\n' * nfull + b'a' * (last - 4) + b',bb\n'
            assert len(filler) == start
            data = filler + cb + b'zz,yy\n'
            for mode in ('file_stream', 'bulk'):
                cases.append({'op': 'read', 'mode': mode, 'hex': data.hex(), 'encoding': 'utf-8', 'dlm': ',', 'policy': policy, 'has_header': False, 'comment_prefix': None})
                meta.append((name, off, policy, mode, data))
    outs = js.run_batch(cases)
    for i in range(0, len(outs), 2):
        name, off, policy, _, data = meta[i]
        st, bulk = outs[i], outs[i + 1]
        res.evaluations += 2
        res.traces += 2
        res.states += 1
        res.transitions += 2
        res.nontrivial += 1
        res.feat('bigfile_cases')
        r = refcsv.ref_read(data.decode('utf-8'), ',', policy)
        exp = {'records': r.records} if r.error is None else {'error': True}
        g1 = {'records': st.get('records')} if 'error' not in st else {'error': True, 'detail': st['error']}
        g2 = {'records': bulk.get('records')} if 'error' not in bulk else {'error': True, 'detail': bulk['error']}
        if r.error is not None:
            g1.pop('detail', None); g2.pop('detail', None)
        case = {'bigfile': name, 'offset_before_64k': off, 'policy': policy, 'size': len(data)}
        if g1 != exp:
            sig = 'F6:split-multibyte-character-rejected' if ('error' in g1 and 'decode' in str(g1.get('detail'))) else 'bigfile-stream-mismatch'
            res.violation(sig, case, {'n_records': len(r.records), 'tail': r.records[-3:]}, {'n_records': len(st.get('records') or []), 'tail': (st.get('records') or [])[-3:], 'error': st.get('error')})
        if g2 != exp:
            res.violation('bigfile-bulk-mismatch', case, {'n_records': len(r.records)}, {'n_records': len(bulk.get('records') or []), 'error': bulk.get('error')})
    res.sample({'bigfile': meta[0][0], 'size': len(meta[0][4])})
    return res


def main(tier, seed):
    t0 = time.time()
    if not js.available():
        core.harness_error('node is required for C20')
    o = alphabet.ascii_ordinary(seed, 1)[0]
    syms = [o, '"', ',', '\n', '\r', '#']
    T = tier == 'thorough'
    shards = []
    for pol in POLICIES:
        s2 = syms if pol[0] != 'whitespace' else [o, '"', ' ', '\n', '\r', '#']
        for f1 in s2:
            if T:
                for f2 in s2:
                    shards.append({'kind': 'ascii', 'syms': s2, 'policy': pol, 'first': f1 + f2, 'minlen': 2, 'maxlen': 6})
            else:
                shards.append({'kind': 'ascii', 'syms': s2, 'policy': pol, 'first': f1, 'minlen': 1, 'maxlen': 5})
        if T:
            for f1 in s2:
                shards.append({'kind': 'ascii', 'syms': s2, 'policy': pol, 'first': f1, 'minlen': 1, 'maxlen': 1})
        shards.append({'kind': 'ascii', 'syms': s2, 'policy': pol, 'first': '', 'minlen': 0, 'maxlen': 0})
        # the same deliveries consumed one record per event-loop turn (an asynchronous writer downstream), length <= 4
        for f1 in s2:
            shards.append({'kind': 'ascii', 'syms': s2, 'policy': pol, 'first': f1, 'minlen': 1, 'maxlen': 5 if T else 4, 'slow': True})
        for f1 in s2:
            shards.append({'kind': 'ascii', 'syms': s2, 'policy': pol, 'first': f1, 'minlen': 1, 'maxlen': 5 if T else 4, 'textstream': True})
    for s in SAMPLES:
        shards.append({'kind': 'utf8', 'sample': s})
    for hx in ('61c3', 'c3', '612ce282', 'e282', '61f09f98', 'c3a92c610ae2', '61ff2c62', 'a9', '0d0ac3', '22c3a90a22e2', 'efbb', 'efbbbf61c3'):
        shards.append({'kind': 'rawbytes', 'hex': hx})
    # long inputs under every single cut (first 400 positions + every 37th) and uniform chunk sizes: chunks of 128+ / 1024+ bytes, lines delivered in dozens of reads
    crlf = ''.join('row%d,"v %d"\r\n' % (i, i) for i in range(40))
    cronly = ''.join('r%d,x\r' % i for i in range(60))
    multi = 'é€😀,ж\n' + ''.join('line%04d,abcdefghij\n' % i for i in range(140))
    longline = 'h1,h2\n' + 'a' * 700 + ',"' + 'b' * 700 + '"\r\nlast,row\r\n'
    for t in (crlf, cronly, multi, longline):
        nb = len(t.encode('utf-8'))
        shards.append({'kind': 'longcuts', 'text': t, 'cuts': sorted(set(list(range(1, min(nb, 400))) + list(range(400, nb, 37)))), 'uniform': [1, 2, 3, 7, 64, 127, 128, 129, 1023, 1024, 1025]})
    from vf.checks import c12 as _c12
    for t in _c12.MEDIUM_TEXTS + ['é€,😀\r\n"ж\r\nж",x\r\n#é\r\nlast,€']:
        shards.append({'kind': 'medium', 'text': t, 'maxcuts': 2})
    crits = [('2-byte char', 'é,x\n', 'quoted'), ('3-byte char', '€,x\n', 'quoted'), ('4-byte char', '\U0001F600,x\n', 'simple'), ('CRLF', 'p,q\r\nr,s\r\n', 'quoted'),
             ('open rfc field', '"m\nn",o\n', 'quoted_rfc'), ('CR then LF in rfc', '"m\r\nn",o\r\n', 'quoted_rfc'), ('BOM-like inside', 'x﻿,y\n', 'simple')]
    for c in crits:
        shards.append({'kind': 'bigfile', 'crits': [c]})
    res = core.run_shards('vf.checks.c20', shards)
    return core.finish(PID, tier, seed, res, t0,
        rule='all byte compositions (2^(n-1)) of all inputs up to the length bound over {o, quote, comma (space for whitespace policy), LF, CR, #} x 5 policies x comment prefix x header, and of 10 UTF-8 samples (utf-8 and binary); 12 byte strings that are not valid UTF-8 (truncated at the end of the input, lone continuation bytes, 0xFF) under every composition; the binary encoding also over a text stream (pieces delivered as latin-1 strings); '
             'states = delivery-tree nodes, transitions = chunks delivered; 64 KiB boundary files for every internal offset of 7 critical sequences; non-trivial = multi-chunk delivery of an input containing CR, a quote or a multi-byte character',
        assumptions=['the reader sees its input only through the data/end events of the stream; each prescribed piece is delivered in its own event-loop turn', 'RefCSV ref_read is the statement of the record rules'],
        extra={'bounds': {'ascii_len': 6 if T else 5, 'samples': SAMPLES}},
        min_features={'multibyte_inputs': 100, 'crlf_inputs': 500, 'bigfile_cases': 20, 'long_input_deliveries': 2000, 'text_stream_deliveries': 5000, 'invalid_utf8_inputs': 40})


def replay(rep):
    c = rep['case']
    if 'pieces' not in c:
        print('re-run the check; case:', c)
        return 0
    out = js.run_batch([{'op': 'read', 'mode': 'stream', 'pieces': c['pieces'], 'encoding': c['encoding'], 'dlm': c['dlm'], 'policy': c['policy'], 'has_header': c['has_header'], 'comment_prefix': c['comment']},
                        {'op': 'read', 'mode': 'stream', 'pieces': [''.join(c['pieces'])], 'encoding': c['encoding'], 'dlm': c['dlm'], 'policy': c['policy'], 'has_header': c['has_header'], 'comment_prefix': c['comment']}])
    print('chunked:', out[0]); print('whole  :', out[1])
    return 0 if out[0] == out[1] else 1
