"""C04 - JOIN pairs each A record with exactly its key-equal B records.

Space: 5 join kinds x 8 key lists (1-3 pairs over fields, NR/aNR, bNR; '=' / '==' and swapped sides alternate) x 12 downstream shapes
(projection, stars, WHERE on b, ORDER BY, GROUP BY/COUNT, bNR/NR, UNNEST, UPDATE) over all pairs of tables (A, B) from the prefix-closed
trees of <= 2 (quick) / <= 3 (thorough) rows, with duplicate keys, unmatched keys and ragged rows (missing key fields). Oracle: RefQL nested-loop pairing.
"""
import time, itertools
from vf import core, refql, qcheck, alphabet

PID = 'C04'
KINDS = ['JOIN', 'INNER JOIN', 'LEFT JOIN', 'LEFT OUTER JOIN', 'STRICT LEFT JOIN']


def space(tier, seed):
    k, m, n = alphabet.words(seed, 3)
    F = lambda t, i: ('f', t, i)
    rowsA = [[k], [k, m], [m, k], [k, k], [n, m]]
    rowsB = [[k], [k, m], [m, k], [k, k], [m, m]]
    keylists = [
        [(F('a', 1), F('b', 1))], [(F('a', 2), F('b', 2))], [(F('a', 1), F('b', 2))], [(('NR',), ('bNR',))], [(('aNR',), F('b', 1))],
        [(F('a', 1), F('b', 1)), (F('a', 2), F('b', 2))], [(F('a', 1), F('b', 1)), (('NR',), ('bNR',))],
        [(F('a', 1), F('b', 1)), (F('a', 2), F('b', 2)), (('NR',), ('bNR',))],
    ]
    shapes = [
        ('sel', {'items': [F('a', 1), F('b', 1), F('b', 2)]}),
        ('sel', {'items': [('star', None)]}),
        ('sel', {'items': [('star', 'b'), ('star', 'a')]}),
        ('sel', {'items': [F('a', 1), F('b', 1)], 'where': ('cmp', '==', F('b', 2), ('lit', k))}),
        ('sel', {'items': [F('a', 1), F('b', 1)], 'order': {'keys': [F('b', 1), F('a', 1)], 'desc': True}, 'inner_only': True}),
        ('sel', {'items': [F('a', 1), ('agg', 'COUNT', 'U', ('star', None))], 'group': [F('a', 1)]}),
        ('sel', {'items': [('bNR',), ('NR',), ('NF',)]}),
        ('sel', {'items': [F('a', 1), ('unnest', ('list', F('b', 1), F('a', 1)))]}),
        ('upd', {'assign': [(F('a', 2), F('b', 2))]}),
        ('upd', {'assign': [(F('a', 1), ('cat', F('a', 1), F('b', 1)))], 'where': ('cmp', '==', F('b', 1), ('lit', k))}),
        # a WHERE that dereferences a b-field: it may only ever be evaluated on a matched pair (an unmatched record of an INNER JOIN is dropped / copied unchanged first)
        ('upd', {'assign': [(F('a', 2), F('b', 2))], 'where': ('cmp', '>', ('len', F('b', 1)), ('int', 0)), 'inner_only': True}),
        ('sel', {'items': [F('a', 1), ('bNR',)], 'where': ('cmp', '>', ('len', F('b', 1)), ('int', 0)), 'inner_only': True}),
    ]
    qs = []
    for jt in KINDS:
        for kl in keylists:
            for kind, sh in shapes:
                if sh.get('inner_only') and jt not in ('JOIN', 'INNER JOIN', 'STRICT LEFT JOIN'):
                    continue
                q = {'kind': 'select' if kind == 'sel' else 'update', 'where': sh.get('where'), 'join': {'type': jt, 'keys': kl}}
                if kind == 'sel':
                    q.update({'items': sh['items'], 'order': sh.get('order'), 'group': sh.get('group'), 'distinct': None, 'top': None})
                else:
                    q['assign'] = sh['assign']
                qs.append(q)
    # hostile key values: names of Object.prototype members and digits that equal a record number as text
    hw = ['constructor', '__proto__', 'toString', '1', '']
    hq = []
    for jt in KINDS:
        for kl in ([(F('a', 1), F('b', 1))], [(('aNR',), F('b', 1))], [(F('a', 1), F('b', 1)), (F('a', 2), F('b', 2))], [(F('a', 1), F('b', 1)), (('NR',), F('b', 2))]):      # last: a record number against a digit string inside a multi-part key (equal as text, different as values)
            for kind, sh in shapes[:2] + shapes[5:6] + shapes[8:9]:
                q = {'kind': 'select' if kind == 'sel' else 'update', 'where': sh.get('where'), 'join': {'type': jt, 'keys': kl}}
                if kind == 'sel':
                    q.update({'items': sh['items'], 'order': sh.get('order'), 'group': sh.get('group'), 'distinct': None, 'top': None})
                else:
                    q['assign'] = sh['assign']
                hq.append(q)
    hrowsA = [[w, 'x'] for w in hw]
    hrowsB = [[w, 'x'] for w in hw[:2]] + [['1', 'x'], ['valueOf', 'y'], ['', 'e'], ['constructor', '1'], ['', '2']]
    return dict(qs=qs, rowsA=rowsA, rowsB=rowsB, k=k, hq=hq, hrowsA=hrowsA, hrowsB=hrowsB)


def diagnose(q, A, B, exp, got, why):
    return 'join-mismatch'


def diagnose_js(q, A, B, exp, got, why):
    if q['kind'] == 'update' and why.startswith("caller's input array modified"):
        return 'F4:js-update-mutates-caller-rows'
    return 'join-mismatch'


def run_shard(sh):
    res = core.Result()
    sp_ = space(sh['tier'], sh['seed'])
    maxrows = 3 if sh['tier'] == 'thorough' else 2
    tabsA = list(qcheck.tables_upto(sp_['rowsA'], maxrows))
    tabsB = list(qcheck.tables_upto(sp_['rowsB'], maxrows))
    # beyond the exhaustive bound: a few larger tables (3-4 matches for one key, bNR up to 5) so that "first two matches" / "third record" slips show in every tier
    k = sp_['k']
    bigB = [[k, 'm1'], ['zz', 'm2'], [k, 'm3'], [k, 'm4'], ['zz', 'm5']]
    bigA = [[k, 'q'], ['zz', 'm5'], ['none', 'x'], [k, 'm4'], [k, 'm1']]
    tabsB_extra = [bigB, bigB[::-1], bigB[:4], [[k, 'm1'], [], [k, 'm3']], [[], [k, 'm1']]]      # incl. a zero-width record inside B (not the end of the table)
    tabsA_extra = [bigA, bigA[:2], bigA[2:]]
    jscases = []
    for qi, q in enumerate(sp_['qs'][sh['lo']:sh['hi']]):
        gi = sh['lo'] + qi
        sp = refql.Spelling(eq_single=(gi % 2 == 1), swap_on=(True if gi % 3 == 1 else ('odd' if gi % 3 == 2 else False)))       # all pairs a-first / all b-first / mixed inside one ON list
        text = refql.render(q, 'py', sp)
        for B, A in [(B_, A_) for B_ in tabsB for A_ in tabsA] + [(B_, A_) for B_ in tabsB_extra for A_ in tabsA_extra]:
            if True:
                exp, got, why = qcheck.run_case(res, q, A, B, diagnose=diagnose, text=text)
                jscases.append((q, A, B, None, None))
                if len(B) > maxrows:
                    res.feat('larger_tables')
                res.states += 1
                res.transitions += (1 if A else 0) + (1 if B else 0)
                if why is None:
                    if exp.error is not None:
                        res.feat('ref_error_' + exp.error[0])
                    else:
                        mm, zero = False, False
                        for i, rec in enumerate(A):
                            try:
                                ms, isnull = refql.join_matches(q, rec, i + 1, B, 0)
                            except refql.RefError:
                                continue
                            if isnull or not ms:
                                zero = True
                            elif len(ms) >= 2:
                                mm = True
                        if mm:
                            res.feat('some_A_with_2plus_matches')
                        if zero:
                            res.feat('some_A_unmatched')
                        if mm or zero:
                            res.nontrivial += 1
                res.outcome(repr((exp.records, exp.error))[:60])
        if qi % 23 == 1:
            res.sample({'query': text, 'table_pairs': len(tabsA) * len(tabsB)})
    if sh.get('registry'):
        # the join table named in the query is the one the registry holds under exactly that id: rbql.query + ListTableRegistry with case-variant / prefix decoy tables
        from vf import drive
        ids = ['b', 'B', 'Jt', 'jt', 'countries.csv', 'Countries.csv', 'bb']
        decoyB = [[k, 'DECOY'], [k, 'DECOY2'], ['zz', 'DECOY']]
        full = sh['tier'] == 'thorough'
        regA, regB = (tabsA[::7] if full else tabsA[::6]) + tabsA_extra[:1], (tabsB[::7] if full else tabsB[::6]) + tabsB_extra[:2]
        for gi, q in enumerate(sp_['qs']):
            if gi % 16 != sh['registry'] - 1:
                continue
            for ji, jid in enumerate(ids):
                text = refql.render(q, 'py', refql.Spelling(swap_on=(ji % 2 == 1)), join_table_id=jid)
                variants = [v for v in (jid.lower(), jid.upper(), jid.swapcase(), jid[:1].upper() + jid[1:].lower(), jid[:-1], jid + 'x') if v and v != jid]
                decoys = [(v, decoyB) for v in dict.fromkeys(variants)]
                for first in ((True, False) if full else (gi % 2 == 0,)):
                    runner = lambda t, A2, B2, an, bn, jid=jid, decoys=decoys, first=first: drive.run_py_registry(t, A2, B2, an, bn, jid, decoys, first)
                    for B in regB:
                        for A in regA:
                            exp, got, why = qcheck.run_case(res, q, A, B, diagnose=lambda *a: 'join-table-lookup-mismatch', text=text, runner=runner)
                            res.states += 1
                            if why is None:
                                res.feat('registry_lookup_cases')
                                if exp.error is None:
                                    res.nontrivial += 1
        return res
    if sh.get('hostile'):
        ta = list(qcheck.tables_upto(sp_['hrowsA'], 2))
        tb = list(qcheck.tables_upto(sp_['hrowsB'], 2))
        for q in sp_['hq'][sh['hlo']:sh['hhi']]:
            text = refql.render(q)
            for B in tb:
                for A in ta:
                    exp, got, why = qcheck.run_case(res, q, A, B, diagnose=diagnose, text=text)
                    jscases.append((q, A, B, None, None))
                    res.states += 1
                    res.feat('hostile_key_cases')
    qcheck.run_js_cases(res, jscases, diagnose_js)
    return res


def main(tier, seed):
    t0 = time.time()
    sp_ = space(tier, seed)
    shards = [{'tier': tier, 'seed': seed, 'lo': lo, 'hi': hi} for lo, hi in core.chunks(len(sp_['qs']), 128)]
    for lo, hi in core.chunks(len(sp_['hq']), 16):
        shards.append({'tier': tier, 'seed': seed, 'lo': 0, 'hi': 0, 'hostile': True, 'hlo': lo, 'hhi': hi})
    shards += [{'tier': tier, 'seed': seed, 'lo': 0, 'hi': 0, 'registry': r + 1} for r in range(16)]
    res = core.run_shards('vf.checks.c04', shards)
    return core.finish(PID, tier, seed, res, t0,
        rule='5 join kinds x 8 key lists x 12 downstream shapes x all (A, B) table pairs up to the row bound (5-row alphabets each: duplicate keys, unmatched keys, rows lacking a key field); '
             'every query also through rbql.query + ListTableRegistry with 7 join-table ids (letter case, dots) next to case-variant / prefix decoy tables placed before and after, over a sub-grid of the table pairs; '
             'states = (query, A, B) nodes, transitions = row-append edges in either table; non-trivial = some A record has >= 2 matches or none',
        assumptions=['RefQL nested-loop pairing in B order is the statement of JOIN', 'ORDER BY on b-fields only under join kinds that never produce None keys'],
        extra={'queries': len(sp_['qs'])},
        min_features={'larger_tables': 1000, 'some_A_with_2plus_matches': 1000, 'some_A_unmatched': 1000, 'ref_error_runtime': 1000, 'ref_error_runtime_b': 100, 'registry_lookup_cases': 20000})


def replay(rep):
    return qcheck.replay_case(rep)
