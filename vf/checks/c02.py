"""C02 - ORDER BY, DISTINCT and TOP/LIMIT compose as sort, then dedup, then truncate; bounded streaming queries stop pulling.

Part A: base lists x ORDER BY (none, 1-2 keys, implicit ASC / ASC / DESC) x {none, DISTINCT, DISTINCT COUNT} x bound (none, n = 0..|T|+1)
x decoration {none, WHERE, INNER JOIN with duplicate keys, UNNEST} over all tables of <= 3 (quick) / <= 4 (thorough) rows from
{k1,k2}x{k1,k2} (ties and duplicates guaranteed); oracle RefQL (sort stable, DESC = reverse, dedup first occurrence, truncate last).
Part B (termination): an input iterator that replays a finite table forever and counts pulls; for every bounded query that needs
no buffering and whose n-th output exists, the query must return, equal the reference on the unrolled prefix, and make no get_record
call after the n-th output record was handed to the writer.
"""
import time, itertools
from vf import core, refql, qcheck, alphabet, tree, drive

PID = 'C02'


class HorizonExceeded(BaseException):
    pass


def space(tier, seed):
    k1, k2 = alphabet.words(seed, 2)
    F = lambda t, i: ('f', t, i)
    rows = [[a, b] for a in (k1, k2) for b in (k1, k2)]
    bases = [[F('a', 1)], [F('a', 1), F('a', 2)], [('NR',), F('a', 1)], [('star', None)]]
    orders = [None]
    for keys in ([F('a', 1)], [F('a', 2)], [F('a', 1), F('a', 2)], [F('a', 2), F('a', 1)]):
        orders.append({'keys': keys, 'desc': False})
        orders.append({'keys': keys, 'desc': False, 'asc_explicit': True})
        orders.append({'keys': keys, 'desc': True})
    # numeric keys: with 10+ records (the 17-record table) numeric order differs from the order of the printed numbers
    orders.append({'keys': [('NR',)], 'desc': True})
    orders.append({'keys': [F('a', 2), ('arith', '*', ('NR',), ('int', 3))], 'desc': True})
    probe_orders = [{'keys': [F('a', 2), F('a', 1), ('NR',)], 'desc': True}, {'keys': [F('a', 1), F('a', 1), F('a', 2), F('a', 2)], 'desc': False}]   # three / four keys
    probe_base = [F('a', 2), ('NR',), F('a', 1), F('a', 2), ('NF',)]             # five items
    distincts = [None, 'distinct', 'count']
    maxrows = 4 if tier == 'thorough' else 3
    bounds = [None]
    for n in range(0, maxrows + 2):
        if tier == 'thorough':
            bounds += [('TOP', n), ('LIMIT', n)]
        elif n == 0:
            bounds += [('TOP', 0), ('LIMIT', 0)]
        else:
            bounds.append(('TOP', n) if n % 2 else ('LIMIT', n))
    decos = ['none', 'where', 'join', 'unnest']
    qs = []
    for base, o, d, b, deco in itertools.product(bases, orders, distincts, bounds, decos):
        q = {'kind': 'select', 'items': list(base), 'where': None, 'join': None, 'order': o, 'distinct': d, 'top': b}
        if deco == 'where':
            q['where'] = ('cmp', '==', F('a', 2), ('lit', k1))
        elif deco == 'join':
            q['join'] = {'type': 'INNER JOIN', 'keys': [(F('a', 1), F('b', 1))]}
        elif deco == 'unnest':
            if base[0][0] == 'star':
                continue
            q['items'] = list(base) + [('unnest', ('list', F('a', 1), F('a', 2)))]
        qs.append(q)
    # scale probes beyond the clause bounds (not multiplied into the full product)
    for o in probe_orders:
        for base in bases[:2]:
            for d in distincts:
                for b in bounds:
                    qs.append({'kind': 'select', 'items': list(base), 'where': None, 'join': None, 'order': o, 'distinct': d, 'top': b})
    for o in (None, orders[3], probe_orders[0]):
        for d in distincts:
            for b in bounds:
                qs.append({'kind': 'select', 'items': list(probe_base), 'where': None, 'join': None, 'order': o, 'distinct': d, 'top': b})
    B = [[k1, 'p'], [k1, 'q'], [k2, 'r']]
    # value-domain slice for DISTINCT: records that differ only by '' vs None, or by 2 vs '2', are different records
    vq = []
    for base in ([F('a', 2)], [F('a', 1), F('a', 2)], [('unnest', ('list', ('NF',), F('a', 2)))], [F('a', 1), ('unnest', ('list', ('NF',), F('a', 2), ('none',), ('lit', '')))]):
        for d in ('distinct', 'count'):
            for o in (None, {'keys': [F('a', 1)], 'desc': False}, {'keys': [F('a', 1)], 'desc': True}):
                for b in (None, ('LIMIT', 2)):
                    vq.append({'kind': 'select', 'items': list(base), 'where': None, 'join': None, 'order': o, 'distinct': d, 'top': b})
    vrows = [[k1, ''], [k1], [k1, '2'], [k2, '2'], [k2, 'None']]
    return dict(rows=rows, qs=qs, B=B, maxrows=maxrows, k1=k1, k2=k2, vq=vq, vrows=vrows)


def lasso_space(tier, seed):
    k1, k2 = alphabet.words(seed, 2)
    F = lambda t, i: ('f', t, i)
    rows = [[a, b] for a in (k1, k2) for b in (k1, k2)]
    maxrows = 3
    qs = []
    for base in ([F('a', 1)], [F('a', 1), F('a', 2)], [('star', None)], [F('a', 1), ('unnest', ('list', F('a', 1), F('a', 2)))]):
        for w in (None, ('cmp', '==', F('a', 2), ('lit', k1)), ('cmp', '==', F('a', 1), ('lit', k2))):
            for d in (None, 'distinct'):
                for n in range(0, 5 if tier == 'thorough' else 4):
                    for style in (('TOP', 'LIMIT') if tier == 'thorough' else (('TOP',) if n % 2 else ('LIMIT',))):
                        qs.append({'kind': 'select', 'items': list(base), 'where': w, 'join': None, 'order': None, 'distinct': d, 'top': (style, n)})
    return dict(rows=rows, qs=qs, maxrows=maxrows)


def diagnose(q, A, B, exp, got, why):
    return 'order-distinct-top-mismatch'


def run_lasso(res, q, T):
    eng = tree.engine()
    n = q['top'][1]
    unroll = [T[i % len(T)] for i in range(len(T) * (n + 1))]
    exp = refql.evaluate(q, unroll)
    if exp.error is not None or len(exp.records) < n:
        res.feat('lasso_skipped_bound_unreachable')
        return
    H = len(T) * (n + 2) + 2

    class Lasso(eng.TableIterator):
        def __init__(self, table):
            eng.TableIterator.__init__(self, table)
            self.pulls = 0

        def get_record(self):
            if self.pulls >= H:
                raise HorizonExceeded()
            rec = self.table[self.pulls % len(self.table)]
            self.pulls += 1
            return rec

    class Rec(eng.RBQLOutputWriter):
        def __init__(self, it):
            self.rows = []
            self.pulls_at_write = []
            self.it = it

        def write(self, fields):
            self.rows.append(fields)
            self.pulls_at_write.append(self.it.pulls)
            return True

    it = Lasso([list(r) for r in T])
    w = Rec(it)
    text = refql.render(q)
    res.evaluations += 1
    res.traces += 1
    res.feat('lasso_executions')
    case = {'kind': 'lasso', 'query': text, 'q': q, 'T': T, 'horizon': H}
    try:
        with core.watchdog(10):
            eng.query(text, it, w, [])
    except HorizonExceeded:
        sig = 'F9b:limit0-pulls-until-first-output-attempt' if n == 0 else 'bounded-query-does-not-stop'
        res.violation(sig, case, {'records': exp.records, 'pulls': exp.pulled}, {'records': w.rows, 'pulls': it.pulls}, 'query kept pulling past the horizon (never terminates on unbounded input)')
        return
    except BaseException as e:
        res.violation('lasso-exception', case, {'records': exp.records}, repr(e))
        return
    res.transitions += it.pulls
    if not refql.same_records(exp.records, w.rows):
        res.violation('lasso-records', case, exp.records, w.rows)
        return
    need = exp.pulled
    if it.pulls != need:
        if n == 0:
            # known corner: with LIMIT 0 the engine discovers the bound at its first output attempt
            first_attempt = None
            q1 = dict(q); q1['top'] = ('TOP', 1); q1['distinct'] = None
            e1 = refql.evaluate(q1, unroll)
            first_attempt = e1.pulled if e1.records else None
            sig = 'F9b:limit0-pulls-until-first-output-attempt' if it.pulls == first_attempt else 'bounded-query-pulls-past-bound'
        else:
            sig = 'bounded-query-pulls-past-bound'
        res.violation(sig, case, {'records': exp.records, 'pulls': need}, {'records': w.rows, 'pulls': it.pulls, 'pulls_at_write': w.pulls_at_write},
                      'get_record was called %d times; the bound was reached after %d' % (it.pulls, need))
    else:
        res.nontrivial += 1


def run_lasso_js(res, qs, tabs):
    """the same termination exploration for rbql-js (its TopWriter is a twin of the Python one)"""
    from vf import js
    if not js.available():
        return
    batch, meta = [], []
    for q in qs:
        n = q['top'][1]
        for T in tabs:
            unroll = [T[i % len(T)] for i in range(len(T) * (n + 1))]
            exp = refql.evaluate_neutral(q, unroll)
            if exp is None or exp.error is not None or len(exp.records) < n:
                continue
            H = len(T) * (n + 2) + 2
            batch.append({'op': 'lasso', 'query': refql.render(q, 'js'), 'table': T, 'horizon': H})
            meta.append((q, T, exp, H))
            batch.append({'op': 'lasso', 'query': refql.render(q, 'js'), 'table': T, 'horizon': H, 'plain': True})      # the user's own minimal iterator class
            meta.append((q, T, exp, H))
    outs = js.run_batch(batch)
    for (q, T, exp, H), c, out in zip(meta, batch, outs):
        res.evaluations += 1
        res.traces += 1
        res.feat('lasso_executions_js')
        case = {'kind': 'lasso-js', 'query': c['query'], 'T': T, 'horizon': H, 'own_minimal_iterator_class': bool(c.get('plain'))}
        if c.get('plain'):
            res.feat('lasso_js_own_iterator_class')
        if out.get('horizon'):
            res.violation('js:bounded-query-does-not-stop', case, {'records': exp.records, 'pulls': exp.pulled}, out, 'query kept pulling past the horizon')
        elif 'error' in out:
            res.violation('js:lasso-exception', case, {'records': exp.records}, out)
        elif not refql.same_records(exp.records, out['records']):
            res.violation('js:lasso-records', case, exp.records, out['records'])
        elif out['pulls'] != exp.pulled:
            res.violation('js:bounded-query-pulls-past-bound', case, {'pulls': exp.pulled}, {'pulls': out['pulls'], 'pulls_at_write': out.get('pulls_at_write')})
        else:
            res.nontrivial += 1
        res.transitions += out.get('pulls', 0)


def run_shard(sh):
    res = core.Result()
    if sh['part'] == 'A':
        sp_ = space(sh['tier'], sh['seed'])
        tabs = list(qcheck.tables_upto(sp_['rows'], sp_['maxrows']))
        tabs.append(qcheck.long_table(sp_['rows'], 2))      # beyond the exhaustive bound: every ordered pair of rows as neighbours, 17 records
        jscases = []
        for qi, q in enumerate(sp_['qs'][sh['lo']:sh['hi']]):
            if qi % 5 == 2:
                text = refql.render(q, 'py', refql.Spelling(sep='   ' if qi % 10 == 2 else '\t ', clause_perm=tuple(reversed(refql.clause_names(q)))))      # runs of blanks between the clauses, ORDER BY ... DESC followed by another clause
            else:
                text = refql.render(q, 'py', refql.Spelling(kwcase='mixed')) if qi % 5 == 3 else (refql.render(q, 'py', refql.Spelling(kwcase='lower')) if qi % 5 == 1 else refql.render(q))     # keywords are case-insensitive: a fifth of the queries in mixed case (Desc, dIsTiNcT), a fifth in lower case
            B = sp_['B'] if q['join'] is not None else None
            for A in tabs:
                n = q['top'][1] if q['top'] else None
                if n is not None and n > len(A) + 1 and q['join'] is None and not any(it[0] == 'unnest' for it in q['items']):
                    continue    # the quantifier: n in 0..|T|+1
                exp, got, why = qcheck.run_case(res, q, A, B, diagnose=diagnose, text=text)
                jscases.append((q, A, B, None, None))
                res.states += 1
                res.transitions += 1 if A else 0
                if why is None and exp.error is None:
                    unb = dict(q); unb['top'] = None
                    full = refql.evaluate(unb, A, B).records
                    plain = dict(unb); plain['distinct'] = None
                    allrecs = refql.evaluate(plain, A, B).records
                    nt = False
                    if q['order'] is not None and len(allrecs) >= 2:
                        keyq = {'kind': 'select', 'items': list(q['order']['keys']), 'where': q['where'], 'join': q['join'], 'order': None, 'distinct': None, 'top': None}
                        keys = [tuple(r) for r in refql.evaluate(keyq, A, B).records]
                        if len(set(keys)) < len(keys):
                            res.feat('sort_ties'); nt = True
                    if q['distinct'] and len(set(map(lambda r: tuple(map(str, r)), allrecs))) < len(allrecs):
                        res.feat('duplicates_removed'); nt = True
                    if n is not None and n < len(full):
                        res.feat('truncating'); nt = True
                    if nt:
                        res.nontrivial += 1
                res.outcome(repr(exp.records)[:60])
            if qi % 211 == 5:
                res.sample({'query': text, 'tables': len(tabs)})
        if sh.get('vslice'):
            vt = list(qcheck.tables_upto(sp_['vrows'], 3))
            for q in sp_['vq']:
                text = refql.render(q)
                for A in vt:
                    exp, got, why = qcheck.run_case(res, q, A, None, diagnose=diagnose, text=text)
                    jscases.append((q, A, None, None, None))
                    res.states += 1
                    if why is None and exp.error is None and q['distinct'] == 'distinct':
                        plain = dict(q); plain['distinct'] = None; plain['top'] = None
                        allr = refql.evaluate(plain, A).records
                        if len(set(map(lambda r: tuple(map(str, r)), allr))) < len(set(map(lambda r: tuple(map(repr, r)), allr))):
                            res.feat('distinct_records_equal_as_text_only')
            # numeric value domain: DISTINCT decides by the values themselves (ints whose hashes collide in CPython: -1 / -2, 0 / 2**61-1; 1 vs True vs '1')
            nrows = [[sp_['k1'], '-1'], [sp_['k1'], '-2'], [sp_['k2'], '0'], [sp_['k2'], '2305843009213693951'], [sp_['k1'], '1']]
            F = lambda t, i: ('f', t, i)
            nbases = [[('toint', F('a', 2))], [F('a', 1), ('toint', F('a', 2))], [('toint', F('a', 2)), ('cmp', '==', F('a', 2), ('lit', '1')), F('a', 2)]]
            for base in nbases:
                for d in ('distinct', 'count'):
                    for b in (None, ('LIMIT', 2)):
                        q = {'kind': 'select', 'items': list(base), 'where': None, 'join': None, 'order': None, 'distinct': d, 'top': b}
                        text = refql.render(q)
                        for A in qcheck.tables_upto(nrows, 3):
                            exp, got, why = qcheck.run_case(res, q, A, None, diagnose=diagnose, text=text)
                            res.states += 1
                            if why is None and len(A) >= 2:
                                res.feat('distinct_over_numeric_values')
        qcheck.run_js_cases(res, jscases, diagnose)
    else:
        sp_ = lasso_space(sh['tier'], sh['seed'])
        tabs = [T for T in qcheck.tables_upto(sp_['rows'], sp_['maxrows']) if T]
        for q in sp_['qs'][sh['lo']:sh['hi']]:
            for T in tabs:
                run_lasso(res, q, T)
                res.states += 1
        run_lasso_js(res, sp_['qs'][sh['lo']:sh['hi']], tabs)
        if sp_['qs'][sh['lo']:sh['hi']]:
            res.sample({'lasso_query': refql.render(sp_['qs'][sh['lo']]), 'tables': len(tabs)})
    return res


def main(tier, seed):
    t0 = time.time()
    sp_ = space(tier, seed)
    ls = lasso_space(tier, seed)
    shards = [{'part': 'A', 'tier': tier, 'seed': seed, 'lo': lo, 'hi': hi} for lo, hi in core.chunks(len(sp_['qs']), 160)]
    shards.append({'part': 'A', 'tier': tier, 'seed': seed, 'lo': 0, 'hi': 0, 'vslice': True})
    shards += [{'part': 'B', 'tier': tier, 'seed': seed, 'lo': lo, 'hi': hi} for lo, hi in core.chunks(len(ls['qs']), 32)]
    res = core.run_shards('vf.checks.c02', shards)
    return core.finish(PID, tier, seed, res, t0,
        rule='A: 4 base lists x 15 ORDER BY forms x {none, DISTINCT, DISTINCT COUNT} x bounds n=0..|T|+1 (TOP/LIMIT) x {plain, WHERE, JOIN with duplicate keys, UNNEST} x all tables up to the row bound over '
             '{k1,k2}x{k1,k2}; B: every bounded non-buffering query over every cyclic (unbounded) replay of every table <= 3 rows with a pull-counting iterator; '
             'non-trivial = ties in the sort key, duplicates actually removed, or n smaller than the unbounded result (A) / bound reached exactly (B)',
        assumptions=['sort keys are mutually comparable strings', 'RefQL models a bounded streaming query as stopping at the bound', 'B: cases whose n-th output never appears are skipped (the query legitimately waits)'],
        extra={'queries_A': len(sp_['qs']), 'queries_B': len(ls['qs'])},
        min_features={'distinct_records_equal_as_text_only': 50, 'sort_ties': 1000, 'duplicates_removed': 1000, 'truncating': 1000, 'lasso_executions': 500, 'lasso_js_own_iterator_class': 100, 'distinct_over_numeric_values': 500})


def replay(rep):
    c = rep['case']
    if c.get('kind') == 'lasso':
        res = core.Result()
        run_lasso(res, qcheck.detuple(c['q']), c['T'])
        for v in res.violations:
            print(v['sig'], v['note'], v['observed'])
        return 1 if res.violations else 0
    return qcheck.replay_case(rep)
