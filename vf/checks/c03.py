"""C03 - aggregates / GROUP BY: one exact result row per group, in key order.

Space: ~130 (quick) / ~400 (thorough) select lists mixing the 9 aggregates (three spellings, expression arguments, COUNT(*)/COUNT(1)/COUNT(x)),
group keys, constants, non-constant columns, nested aggregates, lower-case builtins, TOP/LIMIT, WHERE, over all tables of <= 3 / <= 4 rows from
(key in {g,h}) x (value column homogeneous per table: int-strings, float-strings, native ints, native floats, int-strings + one non-numeric poison).
Oracle: RefQL with exact rational arithmetic (fractions.Fraction); floats compared within 1e-9 relative.
"""
import time, itertools
from vf import core, refql, qcheck, alphabet

PID = 'C03'
AGGS = refql.AGG_KINDS


def space(tier, seed):
    g = alphabet.words(seed, 1)[0]
    h = g + ' z'      # prefix-related keys: value order differs from the order of their printed forms
    F = lambda t, i: ('f', t, i)
    A = lambda kind, sp, arg: ('agg', kind, sp, arg)
    doms = {
        'intstr': ['0', '10', '9'], 'floatstr': ['0.5', '-2.25', '0'], 'int': [0, 10, -3], 'float': [0.5, -2.25, 0.0], 'poison': ['0', '10', 'x'], 'empty': ['7', '', ' '], 'formats': ['1e3', ' 7 ', '+3'], 'tiny': ['1e-11', '3e-11', '-2e-11'], 'formats2': ['.5', '5.', '-007'], 'prefixpoison': ['7', '12abc', '3.5.1'], 'prefixpoison2': ['1,5', '10%', '8'],
    }
    spell = ['U', 'l', 'C']
    qs = []
    wheres = [None, ('cmp', '==', F('a', 1), ('lit', g))]
    n = 0
    for kind in AGGS:
        for grp, items_f in (('none', lambda a: [a]), ('key', lambda a: [F('a', 1), a]), ('nokey', lambda a: [a])):
            for w in wheres:
                sp = spell[n % 3]
                if kind == 'ARRAY_AGG' and sp == 'C':
                    sp = 'l'
                n += 1
                qs.append(('base', {'items': items_f(A(kind, sp, F('a', 3))), 'where': w, 'group': None if grp == 'none' else [F('a', 1)]}))
    for kind in ('SUM', 'MAX', 'AVG', 'MEDIAN', 'MIN', 'VARIANCE'):
        for arg in (('arith', '*', ('toint', F('a', 3)), ('int', 2)), ('tofloat', F('a', 3))):
            for grp in (None, [F('a', 1)]):
                qs.append(('str', {'items': [A(kind, spell[len(qs) % 3], arg)], 'where': None, 'group': grp}))
    two = ['COUNT', 'MIN', 'MAX', 'SUM', 'AVG', 'MEDIAN'] if tier == 'quick' else AGGS
    for k1, k2 in itertools.product(two, repeat=2):
        a1 = A(k1, 'U', ('star', None)) if k1 == 'COUNT' else A(k1, 'U', F('a', 3))
        a2 = A(k2, 'l', F('a', 3))
        qs.append(('base', {'items': [a1, a2], 'where': None, 'group': [F('a', 1)]}))
        if tier == 'thorough':
            qs.append(('base', {'items': [F('a', 1), a1, ('lit', 'c'), a2], 'where': wheres[1], 'group': [F('a', 1)]}))
    qs.append(('base', {'items': [A('MIN', 'U', F('a', 3)), F('a', 1), A('MAX', 'l', F('a', 3)), A('COUNT', 'U', ('star', None)), A('SUM', 'U', F('a', 3)), A('ARRAY_AGG', 'U', F('a', 3)), A('AVG', 'C', F('a', 3))],
               'where': None, 'group': [F('a', 1)]}))
    for arg in (('star', None), ('int', 1), F('a', 1)):
        for grp in (None, [F('a', 1)]):
            qs.append(('base', {'items': [A('COUNT', spell[len(qs) % 3], arg)], 'where': None, 'group': grp}))
    qs.append(('base', {'items': [F('a', 1), A('COUNT', 'U', ('star', None)), A('MAX', 'U', F('a', 3)), A('COUNT', 'l', ('star', None))], 'where': None, 'group': [F('a', 1)]}))
    qs.append(('base', {'items': [A('COUNT', 'C', ('star', None)), A('COUNT', 'U', ('star', None)), A('COUNT', 'U', F('a', 1))], 'where': wheres[1], 'group': None}))
    for kind in ('MIN', 'MAX', 'SUM', 'MEDIAN'):
        qs.append(('big', {'items': [A(kind, 'U', F('a', 3))], 'where': None, 'group': None}))
    qs.append(('base', {'items': [('lit', 'c'), A('SUM', 'U', F('a', 3))], 'where': None, 'group': None}))
    qs.append(('base', {'items': [F('a', 1), A('SUM', 'U', F('a', 3))], 'where': None, 'group': None}))          # non-constant unless one key
    qs.append(('base', {'items': [F('a', 3), A('COUNT', 'U', ('star', None))], 'where': None, 'group': [F('a', 1)]}))   # non-constant
    qs.append(('base', {'items': [A('COUNT', 'U', ('star', None)), F('a', 3)], 'where': wheres[1], 'group': [F('a', 1)]}))
    for top in (0, 1, 5):
        qs.append(('base', {'items': [F('a', 1), A('COUNT', 'U', ('star', None))], 'where': None, 'group': [F('a', 1)], 'top': ('TOP' if top % 2 else 'LIMIT', top)}))
        qs.append(('base', {'items': [A('MAX', 'U', F('a', 3))], 'where': None, 'group': None, 'top': ('LIMIT', top)}))
    # aggregate inside an expression => parsing error (once a record passes WHERE)
    qs.append(('base', {'items': [('cat', A('MAX', 'U', F('a', 1)), ('lit', 'z'))], 'where': None, 'group': None}))
    qs.append(('base', {'items': [('len', A('ARRAY_AGG', 'U', F('a', 1)))], 'where': wheres[1], 'group': [F('a', 1)]}))
    # lower-case builtins keep their Python meaning
    qs.append(('str', {'items': [('bmax', ('toint', F('a', 3)), ('int', 5)), ('bminlist', F('a', 1), F('a', 2)), ('bsumlist', ('int', 1), ('int', 2))], 'where': None, 'group': None}))
    qs.append(('str', {'items': [A('SUM', 'U', ('bmax', ('toint', F('a', 3)), ('int', 0))), A('MIN', 'l', ('bmin', ('toint', F('a', 3)), ('int', 5)))], 'where': None, 'group': [F('a', 1)]}))
    qs.append(('base', {'items': [('bmax', F('a', 1), F('a', 2))], 'where': None, 'group': None}))
    qs.append(('gen', {'items': [F('a', 1), ('bmaxgen', F('a', 3), ';'), ('bminmap', F('a', 3), ';'), ('bsumgen', F('a', 3), ';')], 'where': None, 'group': None}))
    qs.append(('gen', {'items': [F('a', 1), ('agg', 'SUM', 'U', ('bmaxgen', F('a', 3), ';'))], 'where': None, 'group': [F('a', 1)]}))
    # aggregates over ordered values that are neither text nor numbers (dates built with the datetime module the engine offers to queries), every spelling
    D = ('todate', F('a', 3))
    for grp in (None, [F('a', 1)]):
        qs.append(('str', {'items': [A('MIN', 'l', D), A('MAX', 'l', D), A('MIN', 'U', D), A('MAX', 'C', D), A('COUNT', 'U', D)], 'where': None, 'group': grp}))
        qs.append(('str', {'items': [A('MAX', 'l', D), A('ANY_VALUE', 'l', D)], 'where': wheres[1], 'group': grp}))
    # ARRAY_AGG with its documented callback argument (applied to the aggregated list of each group)
    for cb in ('sorted_top2', 'count', 'joined', 'others', 'count_minus_one'):      # the last two return falsy values ([] / 0) for one-element groups
        for grp in (None, [F('a', 1)]):
            qs.append(('str', {'items': ([F('a', 1)] if grp else []) + [('agg', 'ARRAY_AGG', 'U', F('a', 3), cb), ('agg', 'COUNT', 'U', ('star', None))], 'where': None, 'group': grp}))
    qs.append(('str', {'items': [('agg', 'ARRAY_AGG', 'l', F('a', 3), 'joined'), ('agg', 'ARRAY_AGG', 'U', F('a', 1), 'sorted_top2'), ('agg', 'ARRAY_AGG', 'U', F('a', 3))], 'where': wheres[1], 'group': [F('a', 1)]}))
    # scale probe: one group of 15..20 distinct values (even and odd sizes: the two middle elements differ)
    for kind in ('MEDIAN', 'AVG', 'VARIANCE', 'MIN', 'MAX', 'SUM', 'COUNT', 'ARRAY_AGG'):
        qs.append(('biggroup', {'items': [A(kind, 'U', F('a', 3))], 'where': None, 'group': None}))
    qs.append(('biggroup', {'items': [F('a', 1), A('MEDIAN', 'l', F('a', 3)), A('COUNT', 'U', ('star', None))], 'where': None, 'group': [F('a', 1)]}))
    # group keys whose code-point order differs from a case-insensitive / locale collation
    for kind in ('COUNT', 'ARRAY_AGG'):
        qs.append(('keycase', {'items': [F('a', 1), ('agg', kind, 'U', F('a', 3))], 'where': None, 'group': [F('a', 1)]}))
    # numeric group keys: ascending key order is numeric, not textual
    qs.append(('str', {'items': [('toint', F('a', 3)), A('COUNT', 'U', ('star', None))], 'where': None, 'group': [('toint', F('a', 3))]}))
    qs.append(('str', {'items': [A('ARRAY_AGG', 'U', F('a', 1)), A('MAX', 'U', F('a', 3))], 'where': None, 'group': [('arith', '*', ('toint', F('a', 3)), ('int', 1)), F('a', 1)]}))
    # two group keys
    qs.append(('two', {'items': [F('a', 1), F('a', 2), A('COUNT', 'U', ('star', None)), A('SUM', 'U', F('a', 3))], 'where': None, 'group': [F('a', 1), F('a', 2)]}))
    qs.append(('two', {'items': [A('ARRAY_AGG', 'U', F('a', 3)), A('ANY_VALUE', 'l', F('a', 2))], 'where': None, 'group': [F('a', 2), F('a', 1)]}))
    out = []
    for slice_, d in qs:
        q = {'kind': 'select', 'items': d['items'], 'where': d.get('where'), 'join': None, 'order': None, 'distinct': None, 'top': d.get('top'), 'group': d.get('group')}
        out.append((slice_, q))
    return dict(qs=out, doms=doms, g=g, h=h)


def tables_for(sp_, slice_, maxrows):
    g, h = sp_['g'], sp_['h']
    res = []
    if slice_ == 'biggroup':
        out = []
        for n_ in (15, 16, 17, 18, 20, 33):
            vals = [str((7 * i) % 41 - 9) for i in range(n_)]          # distinct, unsorted, some negative
            out.append([[g, 'u', v] for v in vals])
            out.append([[g if i % 3 else h, 'u', v] for i, v in enumerate(vals)])
        return out
    if slice_ == 'gen':
        rows = [[g, 'u', v] for v in ('1;5;3', '7', '-2;0')] + [[h, 'u', '4;4']]
        return list(qcheck.tables_upto(rows, min(maxrows, 3)))
    if slice_ == 'keycase':
        rows = [[k_, 'u', '1'] for k_ in ('B', 'a', '_c', 'b', 'Z-', 'é')]
        return [T for T in qcheck.tables_upto(rows, min(maxrows, 3))]
    if slice_ == 'big':
        # integer strings above 2**53: conversion must be exact (not through float)
        rows = [[g, 'u', v] for v in ('9007199254740993', '9007199254740992', '-9007199254740995', '7', ' 9007199254740993 ', '+9007199254740995')]      # also with surrounding blanks / a sign: still exact integers
        return list(qcheck.tables_upto(rows, min(maxrows, 3)))
    if slice_ == 'two':
        rows = [[a, b, v] for a in (g, h) for b in ('u', 'v') for v in ('0', '10')]
        return list(qcheck.tables_upto(rows, min(maxrows, 3)))
    for name, vals in sp_['doms'].items():
        if slice_ == 'str' and name in ('int', 'float'):
            continue
        rows = [[a, 'u', v] for a in (g, h) for v in vals]
        for T in qcheck.tables_upto(rows, maxrows):
            if T or name == 'intstr':
                res.append(T)
        res.append(qcheck.long_table(rows, 2))     # beyond the exhaustive bound: 37 records, every ordered pair of rows adjacent (groups of ~18 records)
    return res


def diagnose(q, A, B, exp, got, why):
    return 'aggregate-mismatch'


def diagnose_js(q, A, B, exp, got, why):
    if why == 'records differ' and q.get('group') and exp.records and got['records'] and len(exp.records) == len(got['records']):
        key = lambda r: repr(r)
        if sorted(map(key, got['records'])) != list(map(key, got['records'])) or True:
            if sorted(map(repr, exp.records)) == sorted(map(repr, [[(int(v) if isinstance(v, float) and v == int(v) else v) for v in r] for r in got['records']])):
                return 'F8:js-group-order-is-json-text-order'
    return 'aggregate-mismatch'


def run_shard(sh):
    res = core.Result()
    sp_ = space(sh['tier'], sh['seed'])
    maxrows = 4 if sh['tier'] == 'thorough' else 3
    cache = {}
    jscases = []
    for qi, (slice_, q) in enumerate(sp_['qs'][sh['lo']:sh['hi']]):
        if slice_ not in cache:
            cache[slice_] = tables_for(sp_, slice_, maxrows)
        qi_ = sh['lo'] + qi
        text = refql.render(q, 'py', refql.Spelling(paren_pad=' ')) if qi_ % 4 == 1 else (refql.render(q, 'py', refql.Spelling(paren_pad='\t  ')) if qi_ % 4 == 3 else refql.render(q))     # COUNT( * ), SUM( a1 ): blanks inside the call are legal
        for A in cache[slice_]:
            if any(r[2] in ('', ' ') for r in A) and any(it[0] == 'agg' and it[1] == 'SUM' and it[2] == 'l' for it in q['items']):
                continue     # lower-case sum('') is Python's builtin over an empty iterable (0): "an iterable keeps its builtin meaning" - outside the aggregate clause
            exp, got, why = qcheck.run_case(res, q, A, None, diagnose=diagnose, text=text)
            if slice_ != 'big' and (q['items'][0][0] != 'agg' or q['items'][0][2] == 'U'):
                jscases.append((q, A, None, None, None))
            res.states += 1
            res.transitions += 1 if A else 0
            if why is None:
                if exp.error is not None:
                    res.feat('ref_error_' + exp.error[0])
                elif exp.records:
                    keys = set(r[0] for r in A)
                    if len(exp.records) >= 2:
                        res.feat('two_groups')
                    if len(A) > len(exp.records):
                        res.feat('group_with_2plus_records')
                        res.nontrivial += 1
                    vals = [r[2] for r in A]
                    if isinstance(vals[0], str) and any('.' in v for v in vals) and any('.' not in v for v in vals):
                        res.feat('int_then_float_strings')
            res.outcome(repr((exp.records, exp.error))[:80])
        if qi % 7 == 2:
            res.sample({'query': text, 'tables': len(cache[slice_])})
    qcheck.run_js_cases(res, jscases, diagnose_js)
    return res


def main(tier, seed):
    t0 = time.time()
    sp_ = space(tier, seed)
    shards = [{'tier': tier, 'seed': seed, 'lo': lo, 'hi': hi} for lo, hi in core.chunks(len(sp_['qs']), 160)]
    res = core.run_shards('vf.checks.c03', shards)
    return core.finish(PID, tier, seed, res, t0,
        rule='select lists over the 9 aggregates (3 spellings, field / int()*2 / float() arguments, COUNT(*)/COUNT(1)/COUNT(x)), pairs of aggregates, group keys, constants, non-constant columns, '
             'nested aggregates, lower-case builtins, TOP/LIMIT, WHERE x all tables up to the row bound over {g,h} x 5 homogeneous value domains (int-strings, float-strings, ints, floats, int-strings+poison); '
             'non-trivial = some group has >= 2 records',
        assumptions=['value columns are homogeneous per table and contain no None (the quantifier)', 'AVG/VARIANCE/MEDIAN compared with the exact rational value within 1e-9 relative', 'RefQL is the statement of the semantics'],
        extra={'queries': len(sp_['qs'])},
        min_features={'two_groups': 1000, 'group_with_2plus_records': 1000, 'ref_error_runtime': 500, 'ref_error_parsing': 50, 'int_then_float_strings': 100})


def replay(rep):
    return qcheck.replay_case(rep)
