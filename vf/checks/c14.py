"""C14 - errors name the first offending record; warnings appear iff the anomaly occurred.

(1) runtime errors: tables of n <= 4 records, EVERY non-empty subset of positions poisoned, 4 poison kinds x 12 clause shapes; the error must be a
query-execution error naming the smallest poisoned record that WHERE / JOIN let through (RefQL computes it). (2) parsing errors: a closed list of
textual mistakes x tables, with a recording writer: parsing error and zero write calls. (3) IO-handling errors. (4) warnings iff: all width
patterns of tables <= 4 rows over widths {0..3} (field-count warning with the right record numbers), None / delimiter-in-field warnings of the CSV
writer over all small output tables, BOM and quoting warnings of the CSV reader through query().
"""
import io, re, time, itertools
from vf import core, tree, refql, refcsv, qcheck, drive, alphabet

PID = 'C14'
F = lambda t, i, *st: ('f', t, i) + tuple(st)


def poison_queries():
    I = lambda e: ('toint', e)
    qs = []
    S = lambda **kw: dict({'kind': 'select', 'where': None, 'join': None, 'order': None, 'distinct': None, 'top': None, 'group': None}, **kw)
    qs.append(('num', S(items=[F('a', 1), I(F('a', 2))])))
    qs.append(('num', S(items=[F('a', 1)], where=('cmp', '>', I(F('a', 2)), ('int', 0)))))
    qs.append(('num', S(items=[F('a', 1)], order={'keys': [I(F('a', 2))], 'desc': False})))
    qs.append(('num', S(items=[('agg', 'COUNT', 'U', ('star', None))], group=[I(F('a', 2))])))
    qs.append(('num', S(items=[('agg', 'SUM', 'U', I(F('a', 2)))])))
    for kind_ in ('MIN', 'MAX', 'SUM', 'AVG', 'VARIANCE', 'MEDIAN'):
        qs.append(('num', S(items=[('agg', kind_, 'U', F('a', 2))])))
        qs.append(('num', S(items=[F('a', 1), ('agg', kind_, 'l' if kind_ not in ('VARIANCE',) else 'U', F('a', 2))], group=[F('a', 1)], where=('cmp', '!=', ('NR',), ('int', 1)))))
    qs.append(('num', S(items=[('agg', 'MEDIAN', 'l', F('a', 2)), ('agg', 'AVG', 'U', F('a', 2))], group=[F('a', 1)])))
    qs.append(('num', S(items=[I(F('a', 2))], where=('cmp', '!=', ('NR',), ('int', 2)))))          # WHERE hides record 2
    qs.append(('num', {'kind': 'update', 'assign': [(F('a', 1), I(F('a', 2)))], 'where': None, 'join': None}))
    qs.append(('none', S(items=[('upper', F('a', 2))])))
    qs.append(('none', S(items=[F('a', 1)], where=('cmp', '==', ('upper', F('a', 2)), ('lit', 'Z')))))
    qs.append(('none', {'kind': 'update', 'assign': [(F('a', 1), ('cat', F('a', 2), ('lit', 'x')))], 'where': ('cmp', '!=', ('NR',), ('int', 1)), 'join': None}))
    qs.append(('short', {'kind': 'update', 'assign': [(F('a', 2), ('lit', 'z'))], 'where': None, 'join': None}))
    qs.append(('short', S(items=[F('a', 1), F('b', 2)], join={'type': 'LEFT JOIN', 'keys': [(F('a', 2), F('b', 1))]})))
    qs.append(('short', S(items=[F('a', 1)], join={'type': 'INNER JOIN', 'keys': [(F('a', 1), F('b', 1)), (F('a', 2), F('b', 2))]})))
    qs.append(('strict', S(items=[F('a', 1), F('b', 2)], join={'type': 'STRICT LEFT JOIN', 'keys': [(F('a', 2), F('b', 1))]})))
    qs.append(('nonconst', S(items=[F('a', 2), ('agg', 'COUNT', 'U', ('star', None))], group=[F('a', 1)])))
    return qs


def poison_tables(kind, maxn):
    good = ['g', '5']
    bad = {'num': ['g', 'x'], 'none': ['g', None], 'short': ['g'], 'strict': ['g', 'nomatch'], 'nonconst': ['g', '6']}[kind]
    for n in range(1, maxn + 1):
        for mask in range(1, 1 << n):
            yield [list(bad) if (mask >> i) & 1 else list(good) for i in range(n)], mask
    yield [list(good), list(good)], 0
    # scale probe: 12 records, the poison at every single position (two-digit record numbers) and at every adjacent pair
    for k in range(12):
        yield [list(bad) if i == k else list(good) for i in range(12)], 1 << k
    for k in range(11):
        yield [list(bad) if i in (k, k + 1) else list(good) for i in range(12)], 3 << k


def part_runtime(sh, res):
    B = [['5', 'p'], ['6', 'q']]
    for kind, q in poison_queries()[sh['lo']:sh['hi']]:
        text = refql.render(q)
        for A, mask in poison_tables(kind, sh['maxn']):
            useB = B if q.get('join') else None
            exp, got, why = qcheck.run_case(res, q, A, useB, diagnose=lambda *a: 'error-record-number', text=text)
            res.states += 1
            res.transitions += len(A)
            if why is None and exp.error is not None:
                res.nontrivial += 1
                res.feat('runtime_errors_located')
                if exp.error[1] and exp.error[1] > 1:
                    res.feat('first_offender_not_record_1')
                if got['error'] and kind == 'short' and not re.search(r'No "a2" field at record', got['error'][2]):
                    res.violation('missing-field-not-named', {'query': text, 'A': A}, 'No "a2" field at record k', got['error'][2])
            elif why is None:
                res.feat('no_error_cases')
            res.outcome(repr(exp.error))
        res.sample({'query': text, 'poison': kind})


PARSE_MISTAKES = [
    ('select a1 where a1 = "x"', None), ('select a1 limit x', None), ('select a1 select a2', None), ('a1 where a1 == "x"', None),
    ('where a1 == "x" select a1', None), ('update a1 = "x" order by a1', None), ('select count(*) group by a1 order by a1', None),
    ('update "x" = a1', None), ('update b1 = 2', None), ('update a1 = 1, a7zz = 2', None), ('select * except zz', None), ('select * except a1 join b on a1 == b1', 'B'),
    ('select a1 join b a1 == b1', 'B'), ('select a1 join b on a1 == c1', 'B'), ('select a1 join b on x1 == b1', 'B'), ('select a1 join c on a1 == b1', 'B'),
    ('select a1 join b on a1 == b1', 'noreg'), ('select distinct count(*)', None), ('select MAX(a1) + "z"', None), ('select distinct a1, MAX(a2)', None),
    ('select UNNEST(a1.split(",")), UNNEST([1, 2])', None), ('select *, a1 as x', None), ('select a.nosuch', 'hdr'), ('select a1 order by a1 update a2 = 1', None),
    ('select a1 update set a2 = 1', None), ('select distinct count a1, MAX(a2)', None), ('select distinct count MAX(a1)', None), ('select distinct count a1, count(*) group by a1', None), ('update set a1 = "v" select a2', None), ('select len(MIN(a1))', None), ('select a1 join b on a1 == b1 and', 'B'),
]


def part_parsing(sh, res):
    eng = tree.engine()

    class Rec(eng.RBQLOutputWriter):
        def __init__(self):
            self.writes = 0
            self.headers = 0

        def write(self, fields):
            self.writes += 1
            return True

        def set_header(self, h):
            self.headers += 1
    tables = [[['k', 'm'], ['m', 'k']], [['k', 'm']], [['k', 'm'], ['k', 'm'], ['n', 'n']]]
    B = [['k', 'p']]
    for text, mode in PARSE_MISTAKES:
        for A in tables:
            w = Rec()
            names = ['c1', 'c2'] if mode == 'hdr' else None
            it = eng.TableIterator([list(r) for r in A], names)
            reg = None
            if mode == 'B':
                reg = eng.ListTableRegistry([eng.ListTableInfo('b', [list(r) for r in B], None)])
            res.evaluations += 1
            res.traces += 1
            res.states += 1
            res.transitions += 1
            err = None
            try:
                with core.watchdog(10):
                    eng.query(text, it, w, [], reg)
            except BaseException as e:
                if isinstance(e, (KeyboardInterrupt, SystemExit)):
                    raise
                err = drive.classify_py(e)
            case = {'kind': 'parsing', 'query': text, 'A': A, 'mode': mode}
            if err is None or err[0] != 'parsing':
                res.violation('textual-mistake-not-a-parsing-error', case, 'RbqlParsingError', err)
            elif w.writes:
                res.violation('record-written-before-parsing-error', case, 0, w.writes)
            else:
                res.nontrivial += 1
                res.feat('parsing_errors')
    res.sample({'parsing_mistake': PARSE_MISTAKES[1][0]})


def part_io(sh, res):
    rb = tree.load()
    eng, rc = tree.engine(), tree.csvmod()
    cases = []
    # names only on one side of a join
    def run(label, fn):
        res.evaluations += 1
        res.traces += 1
        res.states += 1
        res.transitions += 1
        err = None
        try:
            with core.watchdog(10):
                fn()
        except BaseException as e:
            if isinstance(e, (KeyboardInterrupt, SystemExit)):
                raise
            err = drive.classify_py(e)
        if err is None or err[0] != 'io':
            res.violation('not-an-io-handling-error', {'kind': 'io', 'scenario': label}, 'RbqlIOHandlingError', err)
        else:
            res.nontrivial += 1
            res.feat('io_errors')
    A, B = [['k', 'm']], [['k', 'p']]
    run('input has names, join has none', lambda: rb.query_table('select a1 join b on a1 == b1', A, [], [], B, ['x', 'y'], None))
    run('join has names, input has none', lambda: rb.query_table('select a1 join b on a1 == b1', A, [], [], B, None, ['x', 'y']))
    run('column name list of the wrong length', lambda: rb.query_table('select a1', A, [], [], None, ['x', 'y', 'z']))
    run('column name list too short', lambda: rb.query_table('select a.x', A, [], [], None, ['x']))
    for pos in range(0, 6):
        data = bytearray(b'a,b\nc,d\n')
        data[pos:pos + 1] = b'\xff'
        for cs in (1, 3, 1024):
            run('undecodable byte at %d chunk %d' % (pos, cs), lambda d=bytes(data), cs=cs: eng.query('select *', rc.CSVRecordIterator(io.BytesIO(d), 'utf-8', ',', 'simple', chunk_size=cs), eng.TableWriter([]), []))
    for text in ('a,"b\n', 'x\n"a"b,c\n', '"a""\n'):
        run('defective rfc quoting %r' % text, lambda t=text: eng.query('select *', rc.CSVRecordIterator(io.StringIO(t), None, ',', 'quoted_rfc'), eng.TableWriter([]), []))
    run('unnamed direct column', lambda: rb.query_table('select x', A, [], [], None, ['x', 'bad name'], None, None, False))
    res.sample({'io_scenario': 'undecodable byte at every position x chunk sizes'})


NAMELEN_QUERIES = ['select *', 'select a1', 'update set a1 = "u"', 'select * except a1', 'select distinct count *', 'select a1, b1 join b on a1 == b1', 'select b.*, a1 left join b on a1 == b1', 'select count(*)']


def namelen_cases():
    """column-name lists of every length 0..4 against tables of width 1..3 (input side and join side): a list whose length differs from the first record is
    inconsistent input => IO-handling error, whatever the query; equal lengths (or an empty table) are fine"""
    for q in NAMELEN_QUERIES:
        for wa in (1, 2, 3):
            for wb in (1, 2):
                for na in range(0, 5):
                    for nb in range(0, 4):
                        for rows_a in (0, 1, 2):
                            A = [['k'] * wa for _ in range(rows_a)]
                            B = [['k'] * wb, ['m'] * wb]
                            an = ['n%d' % i for i in range(na)]
                            bn = ['j%d' % i for i in range(nb)]
                            usesB = ' join ' in q
                            if not usesB and (wb, nb) != (1, 1):
                                continue
                            bad = (rows_a > 0 and na != wa) or (usesB and nb != wb)
                            yield q, A, (B if usesB else None), an, (bn if usesB else None), bad


def part_namelen(sh, res):
    eng = tree.engine()
    jsbatch, jsmeta = [], []
    for q, A, B, an, bn, bad in namelen_cases():
        for route in ('query_table', 'query'):
            err = None
            try:
                with core.watchdog(10):
                    if route == 'query_table':
                        eng.query_table(q, [list(r) for r in A], [], [], None if B is None else [list(r) for r in B], an, bn, [])
                    else:
                        reg = None if B is None else eng.ListTableRegistry([eng.ListTableInfo('b', [list(r) for r in B], bn)])
                        eng.query(q, eng.TableIterator([list(r) for r in A], an), eng.TableWriter([]), [], reg)
            except BaseException as e:
                if isinstance(e, (KeyboardInterrupt, SystemExit)):
                    raise
                err = drive.classify_py(e)
            res.evaluations += 1
            res.traces += 1
            res.states += 1
            case = {'kind': 'name-list-length', 'route': route, 'query': q, 'A': A, 'B': B, 'input_names': an, 'join_names': bn}
            if bad:
                if err is None or err[0] != 'io':
                    res.violation('not-an-io-handling-error', case, 'RbqlIOHandlingError', err)
                else:
                    res.feat('name_list_length_errors')
                    res.nontrivial += 1
            else:
                if err is not None and err[0] == 'io':
                    res.violation('spurious-io-handling-error', case, 'no IO-handling error', err)
                else:
                    res.feat('name_list_length_ok')
        c = {'op': 'query', 'query': q.replace('"u"', "'u'"), 'input': A, 'input_names': an}
        if B is not None:
            c['join'] = B
            c['join_names'] = bn
        jsbatch.append(c)
        jsmeta.append((q, A, B, an, bn, bad))
    from vf import js
    if js.available():
        outs = js.run_batch(jsbatch)
        for (q, A, B, an, bn, bad), o in zip(jsmeta, outs):
            res.evaluations += 1
            res.traces += 1
            err = drive.classify_js(o['error']) if 'error' in o else None
            case = {'kind': 'name-list-length', 'route': 'rbql-js query_table', 'query': q, 'A': A, 'B': B, 'input_names': an, 'join_names': bn}
            if bad:
                if err is None or err[0] != 'io':
                    res.violation('js:not-an-io-handling-error', case, 'RbqlIOHandlingError', err if err else o.get('records'))
                else:
                    res.feat('js_name_list_length_errors')
            elif err is not None and err[0] == 'io':
                res.violation('js:spurious-io-handling-error', case, 'no IO-handling error', err)
            else:
                res.feat('js_name_list_length_ok')
    res.sample({'name_list_lengths': '0..4 against widths 1..3, input and join side', 'queries': NAMELEN_QUERIES})


def part_widths(sh, res):
    eng, rc = tree.engine(), tree.csvmod()
    cell = 'v'
    for n in range(0, sh['maxn'] + 1):
        for ws in itertools.product(range(0, 4), repeat=n):
            A = [[cell] * w for w in ws]
            firsts = []
            for i, w in enumerate(ws):
                if w not in [x[1] for x in firsts]:
                    firsts.append((i + 1, w))
            expect = len(firsts) > 1
            for route in ('table', 'registry_from', 'join_table', 'csv', 'csv_comments', 'csv_rfc_multiline'):
                if route.startswith('csv') and (0 in ws):
                    continue   # a zero-field record cannot be written as a CSV line (an empty line is one empty field)
                warns = []
                res.evaluations += 1
                res.traces += 1
                res.states += 1
                res.transitions += n
                try:
                    if route == 'table':
                        eng.query_table('select NR', [list(r) for r in A], [], warns)
                    elif route == 'registry_from':
                        # no fixed input iterator: the table is found through FROM in a user registry; its anomalies are still the input table's
                        eng.query('select NR from t', None, eng.TableWriter([]), warns, eng.ListTableRegistry([eng.ListTableInfo('t', [list(r) for r in A], None)]))
                    elif route == 'join_table':
                        # the anomaly sits in the JOIN table, the input table is rectangular
                        eng.query_table('select a1, bNR join b on a1 == b1', [['v', 'v'], ['w', 'w']], [], warns, [['v'] + list(r) for r in A])        # every B record has its key field: widths are 1 + ws
                    elif route == 'csv':
                        text = refcsv.ref_write(A, ',', 'simple')
                        eng.query('select NR', rc.CSVRecordIterator(io.StringIO(text), None, ',', 'simple'), eng.TableWriter([]), warns)
                    elif route == 'csv_comments':
                        # comment lines before and between the records: record numbers are not line numbers
                        text = '#c\n#c\n' + ''.join(refcsv.ref_write([r], ',', 'simple') + '#c\n' for r in A)
                        eng.query('select NR', rc.CSVRecordIterator(io.StringIO(text), None, ',', 'simple', comment_prefix='#'), eng.TableWriter([]), warns)
                    else:
                        # every record spans two physical lines
                        A2 = [[('l1\nl2' if j == 0 else c) for j, c in enumerate(r)] for r in A]
                        text = refcsv.ref_write(A2, ',', 'quoted_rfc')
                        eng.query('select NR', rc.CSVRecordIterator(io.StringIO(text), None, ',', 'quoted_rfc'), eng.TableWriter([]), warns)
                except Exception as e:
                    res.violation('width-scan-exception', {'kind': 'widths', 'widths': ws, 'route': route}, None, repr(e))
                    continue
                fc = [w for w in warns if 'not consistent' in w]
                case = {'kind': 'widths', 'widths': list(ws), 'route': route}
                if expect:
                    res.nontrivial += 1
                    res.feat('ragged_tables')
                    if not fc:
                        res.violation('missing-field-count-warning', case, firsts[:2], warns)
                    else:
                        m = re.search(r'record (\d+) -> (\d+) fields, record (\d+) -> (\d+) fields', fc[0])
                        got = [(int(m.group(1)), int(m.group(2))), (int(m.group(3)), int(m.group(4)))] if m else None
                        want = [(i, w + 1) for i, w in firsts[:2]] if route == 'join_table' else firsts[:2]
                        if got != want:
                            res.violation('field-count-warning-cites-wrong-records', case, want, fc[0])
                else:
                    res.feat('rectangular_tables')
                    if fc:
                        res.violation('spurious-field-count-warning', case, [], fc)
    res.sample({'widths': [2, 1, 2, 3], 'expected_warning': 'record 1 -> 2 fields, record 2 -> 1 fields'})


def part_writer(sh, res):
    eng, rc = tree.engine(), tree.csvmod()
    k = 'k'
    rows = [[k], [k, 'k,m'], ['k,m'], [], [k, 'm', 'x y'], [k, ' ']]
    S = lambda **kw: dict({'kind': 'select', 'where': None, 'join': None, 'order': None, 'distinct': None, 'top': None, 'group': None}, **kw)
    qs = [S(items=[('star', None)]), S(items=[F('a', 1), F('a', 3)]), S(items=[('star', None)], except_cols=[F('a', 1)]), S(items=[('list', F('a', 1), F('a', 2))]),
          S(items=[F('a', 2)], where=('cmp', '>', ('NF',), ('int', 1))), S(items=[('NR',), F('a', 1)])]
    for q in qs:
        text = refql.render(q)
        for A in qcheck.tables_upto(rows, 2):
            exp = refql.evaluate(q, A)
            if exp.error is not None:
                continue
            for policy, dlm, color in (('simple', ',', False), ('quoted', ',', False), ('simple', '\t', False), ('whitespace', ' ', False), ('quoted_rfc', ',', False), ('simple', '\t', True), ('simple', ',', True), ('quoted', ',', True)):
                out = io.StringIO()
                warns = []
                res.evaluations += 1
                res.traces += 1
                res.states += 1
                res.transitions += len(A)
                try:
                    eng.query(text, eng.TableIterator([list(r) for r in A]), rc.CSVWriter(out, False, None, dlm, policy, colorize_output=color), warns)      # color: the documented --color option; the warnings are about the data, not about the paint
                except Exception as e:
                    res.violation('writer-exception', {'kind': 'writer', 'query': text, 'A': A, 'policy': policy}, None, repr(e))
                    continue
                sub = '|' if dlm != '|' else ';'
                def s(v):
                    if v is None:
                        return ''
                    if isinstance(v, list):
                        return sub.join(s(x) for x in v)
                    return str(v)
                has_none = any(v is None or (isinstance(v, list) and any(x is None for x in v)) for r in exp.records for v in r)
                has_dlm = policy in ('simple', 'whitespace') and any(dlm in s(v) for r in exp.records for v in r)
                w_none = any('None' in w for w in warns)
                w_sep = any('separator' in w for w in warns)
                case = {'kind': 'writer', 'query': text, 'A': A, 'policy': policy, 'dlm': dlm, 'colorize_output': color}
                if color:
                    res.feat('colorized_outputs')
                if has_none:
                    res.feat('outputs_with_none')
                if has_dlm:
                    res.feat('outputs_with_delimiter_in_field')
                if has_none or has_dlm:
                    res.nontrivial += 1
                if w_none != has_none:
                    res.violation('none-warning-iff', case, has_none, warns)
                if w_sep != has_dlm:
                    zero = any(len(r) == 0 for r in exp.records)
                    sig = 'F10:zero-field-record-spurious-separator-warning' if (w_sep and not has_dlm and zero) else 'separator-warning-iff'
                    res.violation(sig, case, has_dlm, warns)
    res.sample({'writer_query': 'SELECT * EXCEPT a1', 'A': [['k']]})


def part_reader(sh, res):
    """BOM and quoting warnings of the CSV reader reach output_warnings iff present"""
    eng, rc = tree.engine(), tree.csvmod()
    texts = ['a,b\n', '﻿a,b\n', 'a,"b\n', '﻿a",b\nc,d\n', 'a,b\n"c"d,e\n', '"a","b"\n', 'a,b\n﻿c,d\n']
    for t in texts:
        for enc in ('utf-8',):
            warns = []
            res.evaluations += 1
            res.traces += 1
            res.states += 1
            res.transitions += 1
            eng.query('select *', rc.CSVRecordIterator(io.BytesIO(t.encode('utf-8')), enc, ',', 'quoted'), eng.TableWriter([]), warns)
            r = refcsv.ref_read(t, ',', 'quoted', bom_char='﻿')
            bom = any('BOM' in w for w in warns)
            dq = any('double quote' in w for w in warns)
            if bom != r.bom or dq != (r.first_defective_line is not None):
                res.violation('reader-warning-iff', {'kind': 'reader', 'text': t}, {'bom': r.bom, 'defective_line': r.first_defective_line}, warns)
            else:
                res.nontrivial += 1
                res.feat('reader_warning_cases')


def part_js(sh, res):
    """the JS twin: record numbers of runtime errors (language-neutral poisons), reader warnings with their numbers, error types"""
    from vf import js
    from vf.checks import c12
    if not js.available():
        res.feat('js_skipped')
        return
    Bp = [['5', 'p'], ['6', 'q']]
    cases = []
    for kind, q in poison_queries():
        if kind in ('short', 'strict', 'nonconst'):
            for A, mask in poison_tables(kind, sh['maxn']):
                cases.append((q, A, (Bp if q.get('join') else None), None, None))
    qcheck.run_js_cases(res, cases, lambda *a: 'error-record-number')
    # reader warnings: width patterns with comment lines and multi-line records, bulk and stream
    batch, meta = [], []
    for n in range(1, 4):
        for ws in itertools.product(range(1, 4), repeat=n):
            A = [['v'] * w for w in ws]
            variants = [(refcsv.ref_write(A, ',', 'simple'), 'simple', None), ('#c\n' + ''.join(refcsv.ref_write([r], ',', 'simple') + '#c\n' for r in A), 'simple', '#'),
                        (refcsv.ref_write([[('l1\nl2' if j == 0 else c) for j, c in enumerate(r)] for r in A], ',', 'quoted_rfc'), 'quoted_rfc', None)]
            for text, pol, cm in variants:
                for mode in ('bulk', 'stream'):
                    c = {'op': 'read', 'mode': mode, 'encoding': 'utf-8', 'dlm': ',', 'policy': pol, 'has_header': False, 'comment_prefix': cm}
                    if mode == 'bulk':
                        c['hex'] = text.encode().hex()
                    else:
                        c['pieces'] = [text.encode().hex()]
                    batch.append(c)
                    meta.append((text, pol, cm, mode))
    # IO errors must be reported as IO handling by the implementation's own classifier
    bad = [('a,"b\n', 'quoted_rfc'), ('x\n"a"b,c\n', 'quoted_rfc')]
    for text, pol in bad:
        for mode in ('bulk', 'stream'):
            c = {'op': 'read', 'mode': mode, 'encoding': 'utf-8', 'dlm': ',', 'policy': pol, 'has_header': False, 'comment_prefix': None}
            if mode == 'bulk':
                c['hex'] = text.encode().hex()
            else:
                c['pieces'] = [text.encode().hex()]
            batch.append(c)
            meta.append((text, pol, None, mode + ':io'))
    for hexdata in ('612cff0a', 'ff', '612c620ac3', '612c620ae282', 'c3', '610ac3'):      # incl. input truncated inside a multibyte character right after the last line break
        for mode in ('bulk', 'stream'):
            c = {'op': 'read', 'mode': mode, 'encoding': 'utf-8', 'dlm': ',', 'policy': 'simple', 'has_header': False, 'comment_prefix': None}
            if mode == 'bulk':
                c['hex'] = hexdata
            else:
                c['pieces'] = [hexdata]
            batch.append(c)
            meta.append((hexdata, 'simple', None, mode + ':io'))
    wt = [([['k', 'v']], False, False), ([['k', None]], True, False), ([[['x', None], 'v']], True, False), ([[['x', 'y'], 'v']], False, False), ([['k,m', 'v']], False, True), ([['k'], ['m,n']], False, True), ([[]], False, False)]
    wouts = js.run_batch([{'op': 'write', 'table': t, 'encoding': 'utf-8', 'dlm': ',', 'policy': 'simple'} for t, _, _ in wt])
    for (t, want_null, want_sep), out in zip(wt, wouts):
        res.evaluations += 1
        res.traces += 1
        ws = out.get('warnings', [])
        got_null = any('null' in w for w in ws)
        got_sep = any('separator' in w for w in ws)
        if 'error' in out or got_null != want_null or got_sep != want_sep:
            res.violation('js:writer-warning-iff', {'kind': 'js-writer', 'table': t}, {'null_warning': want_null, 'separator_warning': want_sep}, out)
        else:
            res.feat('js_writer_warning_cases')
            res.nontrivial += 1
    outs = js.run_batch(batch)
    for (text, pol, cm, mode), out in zip(meta, outs):
        res.evaluations += 1
        res.traces += 1
        res.states += 1
        res.transitions += 1
        if mode.endswith(':io'):
            e = out.get('error') or {}
            if e.get('name') != 'RbqlIOHandlingError' or e.get('type') != 'IO handling':
                res.violation('js:not-an-io-handling-error', {'kind': 'js-io', 'input': text, 'policy': pol, 'mode': mode}, 'RbqlIOHandlingError / IO handling', out)
            else:
                res.feat('js_io_errors')
                res.nontrivial += 1
            continue
        r = refcsv.ref_read(text, ',', pol, False, cm, '\ufeff')
        base = (None, out.get('records'), tuple(out.get('warnings', [])), None) if 'error' not in out else (None, None, (), 'EXC:' + str(out['error']))
        why = c12.compare_with_ref(base, r, False)
        if why:
            res.violation('js:reader-warning-iff', {'kind': 'js-read', 'text': text, 'policy': pol, 'comment': cm, 'mode': mode}, r.key(), out, why)
        else:
            res.feat('js_reader_cases')
            if len(r.fields_info) > 1:
                res.nontrivial += 1
    res.sample({'js_parts': ['runtime error record numbers', 'reader warnings (bulk, stream)', 'IO error types']})


def run_shard(sh):
    res = core.Result()
    if sh['part'] == 'js':
        part_js(sh, res)
        return res
    {'namelen': part_namelen, 'runtime': part_runtime, 'parsing': part_parsing, 'io': part_io, 'widths': part_widths, 'writer': part_writer, 'reader': part_reader}[sh['part']](sh, res)
    return res


def main(tier, seed):
    t0 = time.time()
    maxn = 7 if tier == 'thorough' else 5
    shards = [{'part': 'runtime', 'lo': i, 'hi': i + 1, 'maxn': maxn} for i in range(len(poison_queries()))]
    shards += [{'part': 'namelen'}, {'part': 'parsing'}, {'part': 'io'}, {'part': 'widths', 'maxn': maxn + 1}, {'part': 'writer'}, {'part': 'reader'}, {'part': 'js', 'maxn': 4}]
    res = core.run_shards('vf.checks.c14', shards)
    return core.finish(PID, tier, seed, res, t0,
        rule='runtime: 17 clause shapes x every non-empty subset of poisoned positions of tables up to the row bound (poisons: non-numeric, None, short row, unmatched strict key, non-constant column); '
             'parsing: %d textual mistakes x 3 tables with a recording writer; IO: mode mismatches, wrong name lists (every length 0..4 against widths 1..3 on the input and the join side x 8 queries, rbql-py two routes and rbql-js), undecodable byte at every position x chunk sizes, defective rfc quoting; '
             'warnings: all width patterns up to the row bound over widths 0..3 (table and CSV input), CSV writer None / delimiter warnings over all small output tables x 5 dialects, reader BOM / quoting warnings' % len(PARSE_MISTAKES),
        assumptions=['record numbers in the field-count warning are asserted for header-less, whole-scan queries only (the quantifier)', 'RefQL computes the first offending record'],
        extra={'row_bound': maxn},
        min_features={'colorized_outputs': 300, 'name_list_length_errors': 1000, 'js_name_list_length_errors': 500, 'name_list_length_ok': 100, 'runtime_errors_located': 300, 'first_offender_not_record_1': 100, 'parsing_errors': 50, 'io_errors': 20, 'ragged_tables': 200, 'rectangular_tables': 10,
                      'js_reader_cases': 100, 'js_io_errors': 4, 'outputs_with_none': 50, 'outputs_with_delimiter_in_field': 50, 'reader_warning_cases': 5})


def replay(rep):
    c = rep['case']
    if 'q' in c:
        return qcheck.replay_case(rep)
    print('re-run the check; case:', c)
    return 0
