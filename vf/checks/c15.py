"""C15 - broken pipes, bad bytes and errors are handled cleanly at every point.

Four fault explorations, each enumerating EVERY fault point of every scenario (single-fault bound, the pipe stays broken):
 1. the output stream raises BrokenPipeError from its k-th write on, k = 0..W (W measured on the fault-free run), text streams (every record is two
    stream writes, so faults strike inside records) and utf-8 over a faulty raw stream; 18 query shapes x 7 tables (+ a long-record table);
 2. an invalid byte (0xFF, lone continuation byte, truncation) at every position of 10 UTF-8 samples x chunk sizes 1..n+1 x compositions;
 3. file descriptors around query_csv for success, every parsing mistake of C14, a runtime error at every record, IO errors, unopenable files;
 4. a user writer whose write() returns False at its j-th call, j = 0..W: set_header at most once and first, no write after a False, finish exactly once.
"""
import io, os, gc, sys, time, errno, shutil, tempfile, itertools
from vf import core, tree, refql, refcsv, qcheck, drive
from vf.envs import PieceBytes, compositions
from vf.checks import c14

PID = 'C15'


FAULT_KIND = ['epipe']     # how the stream reports that the consumer went away; every spelling is a BrokenPipeError


def broken_pipe():
    k = FAULT_KIND[0]
    if k == 'bare':
        return BrokenPipeError()                       # raised by a wrapping stream object: no errno at all
    if k == 'eshutdown':
        return BrokenPipeError(errno.ESHUTDOWN, 'Cannot send after transport endpoint shutdown')    # what the OS reports for a shut-down socket
    if k == 'message_only':
        return BrokenPipeError('consumer went away')
    return BrokenPipeError(errno.EPIPE, 'Broken pipe')


class FaultyText(object):
    def __init__(self, k):
        self.k = k
        self.calls = 0
        self.accepted = []
        self.broken_at_call = None
        self.attempts_after_fault = 0
        self.on_fault = None

    def write(self, s):
        self.calls += 1
        if self.calls > self.k:
            if self.broken_at_call is None:
                self.broken_at_call = self.calls
                if self.on_fault:
                    self.on_fault()
            else:
                self.attempts_after_fault += 1
            raise broken_pipe()
        self.accepted.append(s)
        return len(s)

    def flush(self):
        if self.broken_at_call is not None:
            raise broken_pipe()

    def close(self):
        pass


class FaultyRaw(io.RawIOBase):
    def __init__(self, k):
        io.RawIOBase.__init__(self)
        self.k = k
        self.calls = 0
        self.accepted = []
        self.broken_at_call = None
        self.on_fault = None
        self.attempts_after_fault = 0

    def writable(self):
        return True

    def write(self, b):
        self.calls += 1
        if self.calls > self.k:
            if self.broken_at_call is None:
                self.broken_at_call = self.calls
                if self.on_fault:
                    self.on_fault()
            else:
                self.attempts_after_fault += 1
            raise broken_pipe()
        self.accepted.append(bytes(b))
        return len(b)


def shapes():
    return [
        ('streaming', 'select a1, a2', False), ('where', "select a1 where a2 != 'x'", False), ('sorted', 'select a1, a2 order by a1 desc', False),
        ('aggregated', 'select a1, count(*) group by a1', False), ('distinct', 'select distinct a1', False), ('distinct_count', 'select distinct count a1', False),
        ('unnest', "select a1, unnest(a2.split(';'))", False), ('join', 'select a1, b2 join b on a1 == b1', False), ('update', "update set a2 = 'u'", False),
        ('header', 'select a1, a2', True), ('header_sorted', 'select a2 order by a1', True), ('top', 'select top 3 a1', False), ('top_sorted', 'select top 2 a1 order by a2', False),
        ('top_distinct', 'select distinct a1 limit 2', False), ('top_aggregated', 'select a1, count(*) group by a1 limit 2', False), ('top_distinct_count', 'select top 1 distinct count a1', True),
        ('top_unnest', "select top 4 a1, unnest(a2.split(';'))", False), ('top1_aggregated_header', 'select top 1 a1, count(*) group by a1', True),
    ]


BUFFERING = ('sorted', 'aggregated', 'distinct_count', 'header_sorted', 'top_sorted', 'top_aggregated', 'top_distinct_count', 'top1_aggregated_header')
BASE = [['k', 'p;q'], ['m', 'r'], ['k', 's;t'], ['n', 'u;v;w'], ['m', 'x'], ['k', 'p;q'], ['q', 'x'], ['n', 'y;z'], ['k', 'p;q']]
JOINB = [['k', '1'], ['k', '2'], ['m', '3']]


def tables():
    ts = [BASE[:n] for n in range(0, len(BASE) + 1)] + [BASE[3:6], BASE[4:]]
    return ts


def run_query(text, A, names, writer_factory, count_pulls):
    """returns (exception or None, iterator)"""
    eng = tree.engine()

    class CountingIt(eng.TableIterator):
        def __init__(self, *a):
            eng.TableIterator.__init__(self, *a)
            self.pulls = 0
            self.pulls_at_fault = None

        def get_record(self):
            self.pulls += 1
            return eng.TableIterator.get_record(self)
    it = CountingIt([list(r) for r in A], names)
    w = writer_factory(it)
    reg = eng.ListTableRegistry([eng.ListTableInfo('b', [list(r) for r in JOINB], ['jk', 'jv'] if names else None)])
    saved = sys.stdout
    sys.stdout = io.StringIO()       # CSVWriter.finish closes sys.stdout after a broken pipe at flush; never the real one
    err = None
    try:
        with core.watchdog(10):
            eng.query(text, it, w, [], reg)
    except BaseException as e:
        if isinstance(e, (KeyboardInterrupt, SystemExit)):
            raise
        err = e
    finally:
        sys.stdout = saved
    return err, it, w


def part_pipe(sh, res):
    rc = tree.csvmod()
    FAULT_KIND[0] = sh.get('exc', 'epipe')
    res.feat('pipe_fault_kind_' + FAULT_KIND[0])
    for name, text, hdr in shapes()[sh['lo']:sh['hi']]:
        big = [[BASE[i % len(BASE)][0], 'v%d;w' % i] for i in range(300)]
        mid = [[BASE[(i * 5) % len(BASE)][0], 'm%d;n;o' % i] for i in range(40)]
        for A in tables() + ([[['k', 'L' * 3000 + ';z']] * 6] if sh['raw'] else []) + ([big] if name in ('streaming', 'header', 'unnest', 'sorted', 'update') else []) + ([mid] if sh.get('tier') == 'thorough' else []):
            names = ['c1', 'c2'] if hdr else None
            # fault-free run
            if not sh['raw']:
                st0 = FaultyText(10 ** 9)
                err, it0, _ = run_query(text, A, names, lambda it: rc.CSVWriter(st0, False, None, ',', 'quoted'), True)
                full = ''.join(st0.accepted)
            else:
                st0 = FaultyRaw(10 ** 9)
                err, it0, _ = run_query(text, A, names, lambda it: rc.CSVWriter(st0, False, 'utf-8', ',', 'quoted'), True)
                full = b''.join(st0.accepted)
            if err is not None:
                res.violation('fault-free-run-failed', {'kind': 'pipe', 'shape': name, 'A': len(A)}, None, repr(err))
                continue
            W = st0.calls
            res.states += W + 1
            # every fault index for the small tables; for the 300-record table every index up to 40, then every 7th, then the last ones
            ks = range(0, W + 1) if W <= 120 else sorted(set(list(range(0, 41)) + list(range(41, W + 1, 7)) + list(range(W - 3, W + 1))))
            for k in ks:
                st = FaultyRaw(k) if sh['raw'] else FaultyText(k)
                holder = {}

                def factory(it, st=st):
                    holder['it'] = it
                    st.on_fault = lambda: setattr(it, 'pulls_at_fault', it.pulls)
                    return rc.CSVWriter(st, False, 'utf-8' if sh['raw'] else None, ',', 'quoted')
                err, it, w = run_query(text, A, names, factory, True)
                res.evaluations += 1
                res.traces += 1
                res.transitions += st.calls
                case = {'kind': 'pipe', 'raw': sh['raw'], 'shape': name, 'query': text, 'rows': len(A), 'fault_at_write': k, 'writes_fault_free': W, 'exception': repr(broken_pipe())}
                acc = (b'' if sh['raw'] else '').join(st.accepted)
                if k < W:
                    res.nontrivial += 1
                    res.feat('faults_struck')
                    if (not sh['raw']) and k % 2 == 1:
                        res.feat('fault_inside_a_record')
                if err is not None:
                    res.violation('broken-pipe-escapes', case, 'query returns normally', repr(err))
                    continue
                if not full.startswith(acc):
                    res.violation('output-not-a-prefix', case, full[:80], acc[:80])
                if it.pulls_at_fault is not None:
                    extra_pulls = it.pulls - it.pulls_at_fault
                    if extra_pulls > 1:
                        sig = 'keeps-reading-after-broken-pipe'
                        if hdr and st.broken_at_call <= 2 and name in BUFFERING and extra_pulls == len(A) + 1:
                            # the header is written through set_header(), which has no return channel: a buffering query learns about the
                            # broken pipe only at its first record write, i.e. after it has read its whole input
                            sig = 'F15:header-write-fault-unnoticed-by-buffering-query'
                        res.violation(sig, case, '<= 1 further pull', extra_pulls)
                    if st.attempts_after_fault > 1:
                        res.violation('keeps-writing-after-broken-pipe', case, '<= 1 further stream write', st.attempts_after_fault)
                    if st.attempts_after_fault == 1:
                        res.feat('one_more_write_after_header_fault')
                res.outcome((name, k < W))
        res.sample({'shape': name, 'query': text, 'fault_points': 'every stream write 0..W'})


SAMPLES = ['é,€\n', '\U0001F600"x"\r\n', 'a,b\r\nж', '"é\r\n€",z\n', 'ab,cd\nef\n', '€€', 'x\n\U0001F600', 'ж#\n#ж\n', '"a""é"\n', 'a é\r\n', 'p\nq\rz\n', 'p\rq\r€']


def part_badbyte(sh, res):
    rc, eng = tree.csvmod(), tree.engine()
    s = sh['sample']
    good = s.encode('utf-8')
    variants = []
    for p in range(len(good)):
        for rep in ((b'\xff', b'\x80', b'\xc0', b'\xf8', b'\xed\xa0\x80') if sh.get('tier') == 'thorough' else (b'\xff', b'\x80')):       # thorough: also an overlong lead byte, an invalid 5-byte lead, an encoded surrogate
            variants.append((p, rep, good[:p] + rep + good[p + 1:]))
        variants.append((p, b'', good[:p + 1][:-1] if False else good[:p]))     # truncation at p
    seen = set()
    for p, rep, data in variants:
        if data in seen:
            continue
        seen.add(data)
        try:
            text = data.decode('utf-8')
            valid = True
        except UnicodeDecodeError:
            valid = False
        n = len(data)
        deliveries = [('chunk', cs, [data]) for cs in range(1, n + 2)]
        for pieces in compositions(data):
            if len(pieces) <= (4 if sh.get('tier') == 'thorough' else 3) and len(pieces) > 1:
                # compositions that put the bad byte first / last in its piece
                offs = list(itertools.accumulate(len(x) for x in pieces))
                starts = [0] + offs[:-1]
                if p in starts or (p + 1) in offs:
                    deliveries.append(('pieces', 1024, pieces))
        if not valid:
            # text-stream route: the bad byte alone in its piece (so that it is decoded by a later read than everything before it), every iterator chunk size
            if 0 < p:
                for cs in range(1, n + 2):
                    deliveries.append(('textstream', cs, [data[:p], data[p:]]))
                    if p + 1 < n:
                        deliveries.append(('textstream', cs, [data[:p], data[p:p + 1], data[p + 1:]]))
        for policy, dlm in (('simple', ','), ('quoted', ','), ('quoted_rfc', ',')):
            for has_header in (False, True):
                for kind, cs, pieces in deliveries:
                    res.evaluations += 1
                    res.traces += 1
                    res.states += 1
                    res.transitions += len(pieces)
                    err, recs = None, None
                    try:
                        stream = io.BytesIO(data) if kind == 'chunk' else PieceBytes(pieces)
                        if kind == 'textstream':
                            # the caller's own decoding text stream without newline translation (the iterator gets encoding=None and sees CR itself): the undecodable byte surfaces
                            # inside whichever read() happens to need it, including the one-character look-ahead after a CR
                            it = rc.CSVRecordIterator(io.TextIOWrapper(io.BufferedReader(PieceBytes(pieces), buffer_size=1), encoding='utf-8', newline='\n'), None, dlm, policy, has_header=has_header, chunk_size=cs)
                        else:
                            it = rc.CSVRecordIterator(stream, 'utf-8', dlm, policy, has_header=has_header, chunk_size=cs)
                        recs = it.get_all_records()
                    except eng.RbqlIOHandlingError as e:
                        err = 'io'
                    except Exception as e:
                        err = 'EXC:' + type(e).__name__
                    case = {'kind': 'badbyte', 'hex': data.hex(), 'position': p, 'policy': policy, 'has_header': has_header, 'chunk_size': cs, 'pieces': [x.hex() for x in pieces]}
                    if not valid:
                        res.nontrivial += 1
                        res.feat('invalid_inputs')
                        if kind == 'textstream':
                            res.feat('invalid_inputs_through_own_text_stream')
                        if err != 'io':
                            res.violation('invalid-utf8-not-an-io-error', case, 'RbqlIOHandlingError', err or recs)
                    else:
                        res.feat('still_valid_inputs')
                        r = refcsv.ref_read(text, dlm, policy, has_header)
                        if r.error is None and (err is not None or recs != r.records):
                            res.violation('valid-input-misread', case, r.records, err or recs)
                        if recs is not None and any('�' in f for rec in recs for f in rec):
                            res.violation('replacement-character-in-records', case, None, recs)
    res.sample({'sample': s, 'fault': 'byte p replaced by 0xFF / 0x80 / truncated, for every p'})


def part_stdin_env(sh, res):
    """the table arrives on the process's own stdin (an io.TextIOWrapper whose codec and error handler come from the environment) in child interpreters under several
    environments: with encoding='utf-8' valid input is read exactly (BOM dropped with its warning) and an invalid byte is an IO-handling error, whatever the locale /
    PYTHONIOENCODING / UTF-8 mode says"""
    import json, subprocess
    code = ("import sys, json; sys.path.insert(0, %r); from vf import tree; rc = tree.csvmod(); eng = tree.engine()\n"
            "try:\n    it = rc.CSVRecordIterator(sys.stdin, 'utf-8', ',', 'simple'); recs = it.get_all_records(); out = {'records': recs, 'warnings': it.get_warnings()}\n"
            "except eng.RbqlIOHandlingError as e:\n    out = {'error': 'io'}\n"
            "except Exception as e:\n    out = {'error': 'EXC:' + type(e).__name__}\n"
            "sys.stdout.buffer.write(json.dumps(out).encode('ascii'))" % core.VERIF)
    valid = ['\u00e9,\u20ac\nx,y\n', '\ufeffa,b\n\u0436\n', 'plain,ascii\n']
    inputs = [(v.encode('utf-8'), v) for v in valid]
    good = valid[0].encode('utf-8')
    for pos in range(len(good)):
        for rep in (b'\xff', b'\x80'):
            data = good[:pos] + rep + good[pos + 1:]
            try:
                data.decode('utf-8')
            except UnicodeDecodeError:
                inputs.append((data, None))
    inputs.append((good[:-4], None) if False else (good[:1], None))       # truncated inside the first character
    for envo, unset in sh['envs']:
        env = dict(os.environ)
        for k in unset:
            env.pop(k, None)
        env.update(envo)
        env['PYTHONWARNINGS'] = 'ignore'
        for data, text in inputs:
            p = subprocess.run([sys.executable, '-c', code], input=data, stdout=subprocess.PIPE, stderr=subprocess.PIPE, env=env, timeout=120)
            res.evaluations += 1
            res.traces += 1
            res.states += 1
            case = {'kind': 'stdin-under-environment', 'hex': data.hex(), 'process_environment': envo}
            try:
                got = json.loads(p.stdout.decode('ascii')) if p.returncode == 0 else {'error': 'child exit %d: %s' % (p.returncode, p.stderr.decode('utf-8', 'replace')[-200:])}
            except Exception:
                got = {'error': 'unreadable child output %r' % p.stdout[:80]}
            if text is None:
                res.nontrivial += 1
                res.feat('invalid_inputs_on_stdin_under_environment')
                if got.get('error') != 'io':
                    res.violation('invalid-utf8-not-an-io-error', case, 'RbqlIOHandlingError', got)
            else:
                r = refcsv.ref_read(text, ',', 'simple', False, None, '\ufeff')
                bom_warn = any('BOM' in w for w in got.get('warnings', []))
                if got.get('error') or got.get('records') != r.records or bom_warn != r.bom:
                    res.violation('valid-input-misread', case, {'records': r.records, 'bom_warning': r.bom}, got)
                else:
                    res.feat('valid_inputs_on_stdin_under_environment')
    res.sample({'stdin_environments': [e for e, u in sh['envs']]})


def fd_snapshot():
    out = {}
    for name in os.listdir('/proc/self/fd'):
        try:
            out[name] = os.readlink('/proc/self/fd/' + name)
        except OSError:
            pass
    return out


def part_fd(sh, res):
    rb = tree.load()
    base = '/dev/shm' if os.path.isdir('/dev/shm') else tempfile.gettempdir()
    scratch = tempfile.mkdtemp(prefix='vfc15.', dir=base)
    try:
        p1, p2, po = [os.path.join(scratch, n) for n in ('t1.csv', 't2.csv', 'out.csv')]
        with open(p1, 'w') as f:
            f.write('k,5\nm,6\nk,x\nn,8\n')
        with open(p2, 'w') as f:
            f.write('k,p\nm,q\n')
        scen = [('success', 'select a1, a2', p1, po), ('success join', 'select a1, b2 join t2.csv on a1 == b1', p1, po), ('success sorted', 'select * order by a1', p1, po),
                ('io: missing join file', 'select a1 join nosuch.csv on a1 == b1', p1, po), ('missing input file', 'select a1', os.path.join(scratch, 'absent.csv'), po),
                ('unwritable output', 'select a1', p1, os.path.join(scratch, 'nodir', 'out.csv')), ('missing input and join', 'select a1 join t2.csv on a1 == b1', os.path.join(scratch, 'absent.csv'), po)]
        for text, mode in c14.PARSE_MISTAKES:
            t = text.replace(' join b ', ' join t2.csv ').replace(' join c ', ' join nosuch2.csv ')
            scen.append(('parsing: ' + text, t, p1, po))
        for k in range(1, 5):
            scen.append(('runtime error at record %d' % k, 'select int(a2) where NR >= %d' % k if k <= 3 else 'select a1, int(a3)', p1, po))
        scen.append(('runtime error in join query', 'select a1, int(b2) join t2.csv on a1 == b1', p1, po))
        scen.append(('strict left join failure', 'select a1 strict left join t2.csv on a1 == b1', p1, po))
        bad = os.path.join(scratch, 'bad.csv')
        with open(bad, 'wb') as f:
            f.write(b'a,b\n\xff,c\n')
        scen.append(('io: undecodable input', 'select a1', bad, po))
        scen.append(('io: undecodable join', 'select a1 join bad.csv on a1 == b1', p1, po))
        rc = tree.csvmod()
        import builtins
        opened = []

        def tracking_open(*a, **kw):
            f = builtins.open(*a, **kw)
            opened.append(f)
            return f
        rc.open = tracking_open          # the module's own name lookup finds this before the builtin: every file the front-end opens is recorded
        for label, text, pin, pout in scen:
            for with_headers in (False, True):
                gc.collect()
                del opened[:]
                before = fd_snapshot()
                err = None
                during = None
                try:
                    with core.watchdog(10):
                        rb.query_csv(text, pin, ',', 'quoted', pout, ',', 'quoted', 'utf-8', [], with_headers)
                except BaseException as e:
                    if isinstance(e, (KeyboardInterrupt, SystemExit)):
                        raise
                    err = type(e).__name__
                    during = fd_snapshot()      # taken while the traceback still pins the frames: nothing has been reclaimed by the interpreter yet
                still_open = [getattr(f, 'name', '?') for f in opened if not f.closed]
                after = during if during is not None else fd_snapshot()
                res.evaluations += 1
                res.traces += 1
                res.states += 1
                res.transitions += 1
                res.feat('fd_scenarios')
                res.outcome(err)
                if err is not None:
                    res.nontrivial += 1
                    res.feat('fd_error_paths')
                leaked = {k: v for k, v in after.items() if k not in before and scratch in v}
                if leaked or still_open:
                    res.violation('file-left-open', {'kind': 'fd', 'scenario': label, 'query': text, 'with_headers': with_headers}, 'every opened file closed, no new descriptors',
                                  {'not_closed': [os.path.basename(str(n)) for n in still_open], 'descriptors': sorted(os.path.basename(v) for v in leaked.values()), 'outcome': err})
                for f in opened:
                    try:
                        f.close()
                    except Exception:
                        pass
        res.sample({'fd_scenarios': len(scen) * 2})
    finally:
        try:
            del tree.csvmod().open
        except Exception:
            pass
        shutil.rmtree(scratch, ignore_errors=True)


def part_protocol(sh, res):
    eng = tree.engine()

    class Rec(eng.RBQLOutputWriter):
        def __init__(self, j):
            self.j = j
            self.trace = []
            self.nwrites = 0

        def write(self, fields):
            self.nwrites += 1
            ok = not (self.j is not None and self.nwrites > self.j)
            self.trace.append('write:%s' % ('T' if ok else 'F'))
            return ok

        def set_header(self, h):
            self.trace.append('header' if h is not None else 'header:none')

        def finish(self):
            self.trace.append('finish')
    for name, text, hdr in shapes()[sh['lo']:sh['hi']]:
        for A in tables():
            names = ['c1', 'c2'] if hdr else None
            err, it0, w0 = run_query(text, A, names, lambda it: Rec(None), False)
            W = w0.nwrites
            res.states += W + 2
            for j in list(range(0, W + 1)) + [None]:
                err, it, w = run_query(text, A, names, lambda it: Rec(j), False)
                res.evaluations += 1
                res.traces += 1
                res.transitions += len(w.trace)
                case = {'kind': 'protocol', 'shape': name, 'query': text, 'rows': len(A), 'false_at_write': j, 'trace': w.trace}
                tr = w.trace
                problems = []
                if err is not None:
                    problems.append('query raised %r' % (err,))
                if sum(1 for t in tr if t.startswith('header')) > 1:
                    problems.append('set_header called more than once')
                if any(t.startswith('header') for t in tr) and any(x.startswith('write') for x in tr[:[i for i, t in enumerate(tr) if t.startswith('header')][0]]):
                    problems.append('write before set_header')
                if 'write:F' in tr and any(t.startswith('write') for t in tr[tr.index('write:F') + 1:]):
                    problems.append('write after a write returned False')
                if err is None and tr.count('finish') != 1:
                    problems.append('finish called %d times' % tr.count('finish'))
                if tr.count('finish') > 1:
                    problems.append('finish called twice')
                if 'finish' in tr and tr.index('finish') != len(tr) - 1:
                    problems.append('calls after finish')
                if j is not None and j < W:
                    res.nontrivial += 1
                    res.feat('writer_refusals')
                if problems:
                    res.violation('writer-protocol:' + problems[0].split(' ')[0], case, 'set_header <=1 and first; no write after False; finish exactly once', problems)
                res.outcome(tuple(sorted(set(tr))))
        res.sample({'shape': name, 'writer_returns_False_at': 'every write index 0..W'})


def run_shard(sh):
    res = core.Result()
    {'pipe': part_pipe, 'badbyte': part_badbyte, 'fd': part_fd, 'protocol': part_protocol, 'stdin_env': part_stdin_env}[sh['part']](sh, res)
    return res


def main(tier, seed):
    t0 = time.time()
    n = len(shapes())
    shards = []
    for i in range(n):
        shards.append({'part': 'pipe', 'raw': False, 'lo': i, 'hi': i + 1, 'tier': tier})
        shards.append({'part': 'pipe', 'raw': True, 'lo': i, 'hi': i + 1, 'tier': tier})
        if tier == 'thorough':
            # every shape under every spelling of the broken-pipe error, text and raw
            for exc in ('bare', 'eshutdown', 'message_only'):
                shards.append({'part': 'pipe', 'raw': False, 'lo': i, 'hi': i + 1, 'exc': exc, 'tier': tier})
                shards.append({'part': 'pipe', 'raw': True, 'lo': i, 'hi': i + 1, 'exc': exc, 'tier': tier})
        else:
            shards.append({'part': 'pipe', 'raw': False, 'lo': i, 'hi': i + 1, 'exc': ('bare', 'eshutdown', 'message_only')[i % 3], 'tier': tier})
            shards.append({'part': 'pipe', 'raw': True, 'lo': i, 'hi': i + 1, 'exc': ('eshutdown', 'message_only', 'bare')[i % 3], 'tier': tier})
        shards.append({'part': 'protocol', 'lo': i, 'hi': i + 1})
    for s in SAMPLES:
        shards.append({'part': 'badbyte', 'sample': s, 'tier': tier})
    shards.append({'part': 'fd'})
    for h in [({'LC_ALL': 'C', 'PYTHONUTF8': '0', 'PYTHONCOERCECLOCALE': '0'}, ('LANG', 'LC_CTYPE', 'PYTHONIOENCODING')), ({'PYTHONIOENCODING': 'latin-1', 'LC_ALL': 'C.UTF-8'}, ('LANG',)),
              ({'PYTHONIOENCODING': 'utf-8:surrogateescape'}, ()), ({'PYTHONIOENCODING': 'utf-8:replace'}, ()), ({'PYTHONUTF8': '1'}, ('PYTHONIOENCODING',)), ({'LC_ALL': 'C.UTF-8'}, ('LANG', 'PYTHONIOENCODING', 'PYTHONUTF8'))]:
        shards.append({'part': 'stdin_env', 'envs': [h]})
    res = core.run_shards('vf.checks.c15', shards)
    return core.finish(PID, tier, seed, res, t0,
        rule='single-fault exploration: the fault index ranges over every stream write (text and raw) / every writer call / every byte position of every scenario; 18 query shapes x prefixes 0..9 (and two infixes) of a 9-row table; '
             'states = fault points, transitions = environment calls answered; non-trivial = the fault actually struck before the run ended',
        assumptions=['a broken pipe stays broken (no recovery)', 'validity of a mutated byte string is decided by CPython\'s strict utf-8 codec', 'descriptors are compared through /proc/self/fd after gc.collect()'],
        extra={'shapes': [s[0] for s in shapes()]},
        min_features={'invalid_inputs_on_stdin_under_environment': 60, 'valid_inputs_on_stdin_under_environment': 12, 'invalid_inputs_through_own_text_stream': 3000, 'faults_struck': 400, 'pipe_fault_kind_bare': 6, 'pipe_fault_kind_eshutdown': 6, 'pipe_fault_kind_message_only': 6, 'invalid_inputs': 5000, 'fd_error_paths': 40, 'writer_refusals': 300})


def replay(rep):
    print('re-run the check; case:', rep['case'])
    return 0
