"""C19 - the JavaScript engine has the same relational semantics as the reference.

The language-neutral part of the C01-C05 and C07 spaces (select/where/stars/EXCEPT/UNNEST, order/distinct/top, aggregates, joins, update, headers)
rendered into JavaScript syntax and executed by rbql-js through the node batch driver; RefQL is the oracle (records, header, error class and
record number); the caller's input and join arrays must be unmodified and output rows must not alias them.
A case is language-neutral iff the reference evaluation never feeds an operator with operands on which Python and JavaScript differ
(None into +, mixed-type comparisons, non-boolean WHERE); such cases are skipped and counted.
"""
import time, itertools
from vf import core, refql, qcheck, js, alphabet
from vf.checks import c01, c02, c03, c04, c05, c07

PID = 'C19'


def gen_cases(sh):
    tier, seed, src = sh['tier'], sh['seed'], sh['src']
    lo, hi = sh['lo'], sh['hi']
    if src == 'c01':
        v, qs = c01.queries(tier, seed)
        maxrows = 3 if tier == 'thorough' else 2
        pt = list(qcheck.tables_upto(v['rows'], maxrows)) + [qcheck.long_table(v['rows'], maxrows)]
        jt = list(qcheck.tables_upto(v['jrows'], maxrows)) + [qcheck.long_table(v['jrows'][:4], maxrows)]
        w12 = [['c%d' % i for i in range(1, 13)], ['d%d' % i for i in range(1, 13)], ['e%d' % i for i in range(1, 12)]]
        for kind, q in qs[lo:hi]:
            if kind == 'wide':
                for A in qcheck.tables_upto(w12, 2):
                    yield q, A, None, None, None
            elif kind == 'plain':
                for A in pt:
                    yield q, A, None, None, None
            else:
                for B in v['Bs']:
                    for A in jt:
                        yield q, A, B, None, None
    elif src == 'c02':
        sp_ = c02.space(tier, seed)
        tabs = list(qcheck.tables_upto(sp_['rows'], sp_['maxrows'])) + [qcheck.long_table(sp_['rows'], 2)]
        for q in sp_['qs'][lo:hi]:
            B = sp_['B'] if q['join'] is not None else None
            for A in tabs:
                yield q, A, B, None, None
        if lo == 0:
            for q in sp_['vq']:
                for A in qcheck.tables_upto(sp_['vrows'], 3):
                    yield q, A, None, None, None
    elif src == 'c03':
        sp_ = c03.space(tier, seed)
        maxrows = 4 if tier == 'thorough' else 3
        cache = {}
        for slice_, q in sp_['qs'][lo:hi]:
            if (q['items'][0][0] == 'agg' and q['items'][0][2] != 'U') or slice_ == 'big':
                continue      # JavaScript numbers cannot hold integers above 2**53: not language-neutral
            if slice_ not in cache:
                cache[slice_] = c03.tables_for(sp_, slice_, maxrows)
            for A in cache[slice_]:
                yield q, A, None, None, None
    elif src == 'c04':
        sp_ = c04.space(tier, seed)
        maxrows = 3 if tier == 'thorough' else 2
        ta = list(qcheck.tables_upto(sp_['rowsA'], maxrows))
        tb = list(qcheck.tables_upto(sp_['rowsB'], maxrows))
        k = sp_['k']
        bigB = [[k, 'm1'], ['zz', 'm2'], [k, 'm3'], [k, 'm4'], ['zz', 'm5']]
        bigA = [[k, 'q'], ['zz', 'm5'], ['none', 'x'], [k, 'm4'], [k, 'm1']]
        for q in sp_['qs'][lo:hi]:
            for B in tb:
                for A in ta:
                    yield q, A, B, None, None
            for B in (bigB, bigB[::-1], bigB[:4], [[k, 'm1'], [], [k, 'm3']], [[], [k, 'm1']]):
                for A in (bigA, bigA[:2], bigA[2:]):
                    yield q, A, B, None, None
        if lo == 0:
            ha = list(qcheck.tables_upto(sp_['hrowsA'], 2))
            hb = list(qcheck.tables_upto(sp_['hrowsB'], 2))
            for q in sp_['hq']:
                for B in hb:
                    for A in ha:
                        yield q, A, B, None, None
    elif src == 'c05':
        sp_ = c05.space(tier, seed)
        tabs, Bsets = c05.tables_and_Bs(sp_, 3 if tier == 'thorough' else 2)
        for kind, q in sp_['qs'][lo:hi]:
            for names in ([sp_['names'], sp_['names'][::-1]] if kind == 'named' else [None]):
                for B in Bsets.get(kind, [None]):
                    for A in tabs[kind]:
                        yield q, A, B, names, None
    elif src == 'c07':
        sp_ = c07.space(tier, seed)
        for q, hdr, join in sp_['cases'][lo:hi]:
            if q.get('wide'):
                yield q, [['v%d' % i for i in range(1, 13)]], None, ['w%d' % i for i in range(1, 13)], None
                continue
            if q['kind'] == 'select' and any(refql.strip_alias(it)[0] in ('call', 'tuple') or (it[0] == 'list' and q.get('distinct')) for it in q.get('items', [])):
                continue
            for A in sp_['tables'][:2]:
                yield q, A, (sp_['B'] if join else None), (sp_['names'] if hdr else None), (sp_['bnames'] if (hdr and join) else None)


def diagnose(q, A, B, exp, got, why):
    if why.startswith("caller's") or 'aliases' in why:
        return 'source-modified-or-aliased'
    if 'header' in why:
        return 'header-mismatch'
    return 'js-semantics-mismatch'


def run_input_errors(sh, res):
    """error class on inconsistent caller input (column-name lists that do not fit the records, names on one side of a JOIN only): rbql-js reports what rbql-py reports"""
    from vf.checks import c14
    from vf import drive
    batch, meta = [], []
    cases = [(q, A, B, an, bn) for q, A, B, an, bn, bad in c14.namelen_cases()]
    cases += [('select a1, b1 join b on a1 == b1', [['k', 'm']], [['k', 'p']], an, bn) for an, bn in ((['x', 'y'], None), (None, ['x', 'y']), (None, None), (['x', 'y'], ['x', 'y']), (['x', 'y'], ['u', 'v']))]
    for q, A, B, an, bn in cases:
        got = drive.run_py(q, qcheck.copy_table(A), qcheck.copy_table(B), an, bn)
        c = {'op': 'query', 'query': q.replace('"u"', "'u'"), 'input': A}
        if an is not None:
            c['input_names'] = an
        if B is not None:
            c['join'] = B
            if bn is not None:
                c['join_names'] = bn
        batch.append(c)
        meta.append((q, A, B, an, bn, got))
    for (q, A, B, an, bn, got), o in zip(meta, js.run_batch(batch)):
        res.evaluations += 1
        res.traces += 1
        res.states += 1
        pe = got['error'][0] if got['error'] else None
        je = drive.classify_js(o['error'])[0] if 'error' in o else None
        if pe != je:
            res.violation('error-class-differs-from-python', {'lang': 'js', 'query': q, 'A': A, 'B': B, 'a_names': an, 'b_names': bn}, {'python_error_class': pe}, {'js_error_class': je, 'js': o.get('error') or o.get('records')})
        else:
            res.feat('input_error_class_agrees' if pe else 'input_ok_agrees')
            if pe:
                res.nontrivial += 1
    return res


def run_shard(sh):
    if sh['src'] == 'input_errors':
        return run_input_errors(sh, core.Result())
    res = core.Result()
    cases = list(gen_cases(sh))
    n = qcheck.run_js_cases(res, cases, diagnose, tag='js')
    res.states += n
    res.transitions += sum(len(c[1]) for c in cases)
    res.nontrivial += res.features.get('js_nonempty_agree', 0)
    res.feat('src_' + sh['src'], n)
    if cases:
        q, A, B, an, bn = cases[len(cases) // 2]
        res.sample({'query_js': refql.render(q, 'js'), 'A': A, 'B': B, 'names': an})
    return res


def main(tier, seed):
    t0 = time.time()
    if not js.available():
        core.harness_error('node is required for C19')
    shards = []
    sizes = {'c01': len(c01.queries(tier, seed)[1]), 'c02': len(c02.space(tier, seed)['qs']), 'c03': len(c03.space(tier, seed)['qs']),
             'c04': len(c04.space(tier, seed)['qs']), 'c05': len(c05.space(tier, seed)['qs']), 'c07': len(c07.space(tier, seed)['cases'])}
    for src, n in sizes.items():
        for lo, hi in core.chunks(n, 48):
            shards.append({'tier': tier, 'seed': seed, 'src': src, 'lo': lo, 'hi': hi})
    shards.append({'tier': tier, 'seed': seed, 'src': 'input_errors', 'lo': 0, 'hi': 0})
    res = core.run_shards('vf.checks.c19', shards)
    return core.finish(PID, tier, seed, res, t0,
        rule='the language-neutral cases of the C01-C05 and C07 spaces (same generators, same table trees) rendered by the JavaScript printer and run through rbql-js; the error class on column-name lists that do not fit the records (lengths 0..4 x widths 1..3, both sides) compared with rbql-py; '
             'states = (query, tables) cases, transitions = input rows fed; non-trivial = non-empty result that agrees with the reference',
        assumptions=['a case is skipped when the reference evaluation would feed an operator with operands on which the two languages differ (counted as js_not_neutral_skipped)', 'RefQL is the statement of the semantics'],
        extra={'sources': sizes},
        min_features={'src_c01': 10000, 'src_c02': 10000, 'src_c03': 10000, 'src_c04': 10000, 'src_c05': 10000, 'src_c07': 1000, 'js_nonempty_agree': 100000, 'input_error_class_agrees': 500})


def replay(rep):
    c = rep['case']
    q = qcheck.detuple(c['q'])
    res = core.Result()
    qcheck.run_js_cases(res, [(q, c['A'], c['B'], c['a_names'], c['b_names'])], diagnose)
    for v in res.violations:
        print(v['sig'], v['note'], v['expected'], v['observed'])
    return 1 if res.violations else 0
