"""Owned environments: streams whose answers the explorer prescribes, faulty pipes, recording writers."""
import io


class PieceText(object):
    """Text stream that answers read(k) with the next prescribed piece (split if the request is smaller)."""
    def __init__(self, pieces):
        self.pieces = [p for p in pieces if p]
        self.i = 0
        self.calls = 0
        self.closed = False

    def read(self, k=-1):
        self.calls += 1
        if self.i >= len(self.pieces):
            return ''
        p = self.pieces[self.i]
        if k is None or k < 0 or k >= len(p):
            self.i += 1
            return p
        self.pieces[self.i] = p[k:]
        return p[:k]

    def close(self):
        self.closed = True


class PieceBytes(io.RawIOBase):
    """Raw byte stream delivering prescribed pieces (short reads)."""
    def __init__(self, pieces):
        io.RawIOBase.__init__(self)
        self.pieces = [bytes(p) for p in pieces if p]
        self.i = 0
        self.calls = 0

    def readable(self):
        return True

    def readinto(self, b):
        self.calls += 1
        if self.i >= len(self.pieces):
            return 0
        p = self.pieces[self.i]
        k = len(b)
        if k >= len(p):
            b[:len(p)] = p
            self.i += 1
            return len(p)
        b[:k] = p[:k]
        self.pieces[self.i] = p[k:]
        return k


def compositions(seq):
    """All 2^(n-1) ways to cut seq (str/bytes) into consecutive non-empty pieces."""
    n = len(seq)
    if n == 0:
        yield []
        return
    for mask in range(1 << (n - 1)):
        pieces = []
        start = 0
        for j in range(n - 1):
            if mask >> j & 1:
                pieces.append(seq[start:j + 1])
                start = j + 1
        pieces.append(seq[start:])
        yield pieces


def compositions_bounded(seq, maxcuts):
    """All ways to cut seq into consecutive non-empty pieces using at most maxcuts cut points (deviation-bounded exploration:
    the default schedule is one piece; every cut is one deviation)."""
    import itertools
    n = len(seq)
    for k in range(0, maxcuts + 1):
        for cuts in itertools.combinations(range(1, n), k):
            pts = [0] + list(cuts) + [n]
            yield [seq[pts[i]:pts[i + 1]] for i in range(len(pts) - 1)]
