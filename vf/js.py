"""Batch bridge to node: JSONL cases in, JSONL results out (one process per batch)."""
import os, json, shutil, subprocess, tempfile
from vf import tree

DRIVER = os.path.join(os.path.dirname(os.path.realpath(__file__)), 'jsdriver.js')


def available():
    return shutil.which('node') is not None


def run_batch(cases, timeout=3600):
    """Run all cases in one node process; returns list of result dicts (same order)."""
    if not cases:
        return []
    env = dict(os.environ)
    env['VERIF_JS_ROOT'] = tree.JS_ROOT
    inp = '\n'.join(json.dumps(c, ensure_ascii=True) for c in cases) + '\n'
    p = subprocess.run(['node', '--stack-size=4000', DRIVER], input=inp.encode(), stdout=subprocess.PIPE, stderr=subprocess.PIPE, env=env, timeout=timeout)
    if p.returncode != 0:
        raise RuntimeError('node driver failed rc=%s: %s' % (p.returncode, p.stderr.decode(errors='replace')[-2000:]))
    outs = [json.loads(l) for l in p.stdout.decode().split('\n') if l]
    if len(outs) != len(cases):
        raise RuntimeError('node driver returned %d results for %d cases; stderr=%s' % (len(outs), len(cases), p.stderr.decode(errors='replace')[-2000:]))
    return outs
