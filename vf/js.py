"""Batch bridge to node: JSONL cases in, JSONL results out (one process per batch)."""
import os, json, shutil, subprocess, tempfile
from vf import tree

DRIVER = os.path.join(os.path.dirname(os.path.realpath(__file__)), 'jsdriver.js')


def available():
    return shutil.which('node') is not None


def run_batch(cases, timeout=3600, _retry=True):
    """Run all cases in one node process; returns list of result dicts (same order)."""
    if not cases:
        return []
    env = dict(os.environ)
    env['VERIF_JS_ROOT'] = tree.JS_ROOT
    inp = '\n'.join(json.dumps(c, ensure_ascii=True) for c in cases) + '\n'
    p = subprocess.run(['node', '--stack-size=4000', DRIVER], input=inp.encode(), stdout=subprocess.PIPE, stderr=subprocess.PIPE, env=env, timeout=timeout)
    if p.returncode != 0:
        raise RuntimeError('node driver failed rc=%s: %s' % (p.returncode, p.stderr.decode(errors='replace')[-2000:]))
    outs = [json.loads(l) for l in p.stdout.decode().split('\n') if l]
    if len(outs) != len(cases):
        raise RuntimeError('node driver returned %d results for %d cases; stderr=%s' % (len(outs), len(cases), p.stderr.decode(errors='replace')[-2000:]))
    if _retry:
        # a HANG verdict is a wall-clock judgement: confirm it alone in a fresh node process (generous timeout) before believing it,
        # so that a loaded machine can never produce an alarm
        for i, o in enumerate(outs):
            if _is_hang(o):
                env2 = dict(env)
                env2['VERIF_JS_HANG_MS'] = '60000'
                p2 = subprocess.run(['node', '--stack-size=4000', DRIVER], input=(json.dumps(cases[i], ensure_ascii=True) + '\n').encode(), stdout=subprocess.PIPE, stderr=subprocess.PIPE, env=env2, timeout=timeout)
                lines = [l for l in p2.stdout.decode().split('\n') if l]
                if p2.returncode == 0 and len(lines) == 1:
                    outs[i] = json.loads(lines[0])
    return outs


def _is_hang(o):
    if not isinstance(o, dict):
        return False
    e = o.get('error')
    if isinstance(e, dict) and e.get('name') == 'HANG':
        return True
    for k in ('base', 'bulk'):
        if isinstance(o.get(k), dict) and _is_hang(o[k]):
            return True
    return any(_is_hang(d.get('result')) for d in o.get('diffs', []) if isinstance(d, dict))
