"""RefQL: query structures, a reference interpreter and printers (Python / JavaScript syntax).

A query is data, never text. The reference interpreter implements the textbook relational
semantics stated by properties C01-C05/C07 directly on Python values; it never evals query text
and never imports rbql.

Expressions (tuples):
  ('f', t, i)            a<i> / b<i>, 1-based; None if the record is shorter
  ('named', t, name, style)   style in attr | dq | sq | bare
  ('lit', s) ('int', n) ('none',)
  ('NR',) ('NF',) ('bNR',) ('NU',) ('aNR',)
  ('cat', e1, e2)        e1 + e2
  ('arith', op, e1, e2)  op in + - * on ints
  ('cmp', op, e1, e2)    == != < > <= >=
  ('and', e1, e2) ('or', e1, e2) ('not', e)
  ('ifelse', cond, e1, e2)   e1 if cond else e2  /  cond ? e1 : e2
  ('like', e, pattern_str)
  ('len', e) ('upper', e) ('split', e, sep) ('list', e1, ...)
  ('toint', e)           int(e)           (Python only)
  ('tofloat', e)         float(e)         (Python only)
  ('todate', e)          datetime.date.fromordinal(730000 + int(e))   (Python only; a value that is neither text nor a number)
  ('bmax', e1, e2) ('bmin', e1, e2) ('bminlist', e...) ('bsumlist', e...)   lower-case builtins (Python only)
  ('agg', kind, spelling, e)   kind in COUNT MIN MAX SUM AVG VARIANCE MEDIAN ARRAY_AGG ANY_VALUE; e may be ('star',None) for COUNT(*)
  ('star', None|'a'|'b')
  ('unnest', e)
  ('unpack', e)          *e / ...e : the elements of a list become that many output fields (documented: `SELECT *a1.split(':')`)
  ('alias', e, name, as_spelling)
  ('call', fname, e...)  opaque call with commas, only for header tests, e.g. ('call','max', ...) not evaluated by C07
  ('paren', e)
Query (dict): kind select|update, items, except_cols, assign, where, join, order, distinct, top, group, with_mod
"""
from fractions import Fraction
from vf import reflike


class RefError(Exception):
    def __init__(self, cls, nr=None, detail=''):
        Exception.__init__(self, '%s@%s %s' % (cls, nr, detail))
        self.cls = cls          # 'runtime' | 'parsing' | 'io' | 'runtime_b'
        self.nr = nr
        self.detail = detail


class Outcome(object):
    def __init__(self, records=None, header=None, error=None, alts=None, pulled=None):
        self.records = records
        self.header = header
        self.error = error      # None | (cls, nr)
        self.alts = alts or {}  # index -> alternative acceptable record (documented spec ambiguity)
        self.pulled = pulled    # number of input records the reference needed
        self.alt_error = None   # an error outcome that is acceptable as well (LIMIT 0 over bad input)

    def __repr__(self):
        return 'Outcome(records=%r, header=%r, error=%r)' % (self.records, self.header, self.error)


AGG_KINDS = ['COUNT', 'MIN', 'MAX', 'SUM', 'AVG', 'VARIANCE', 'MEDIAN', 'ARRAY_AGG', 'ANY_VALUE']


# ----------------------------------------------------------------------------------------------
# helpers over expressions

def walk(e):
    yield e
    if isinstance(e, tuple):
        for x in e[1:]:
            if isinstance(x, tuple):
                for y in walk(x):
                    yield y


def has_agg(e):
    return any(isinstance(x, tuple) and x and x[0] == 'agg' for x in walk(e))


def strip_alias(e):
    return e[1] if e[0] == 'alias' else e


def is_top_agg(e):
    return strip_alias(e)[0] == 'agg'


def q_is_aggregate(q):
    if q['kind'] != 'select':
        return False
    return any(has_agg(it) for it in q['items']) or q.get('group') is not None


# ----------------------------------------------------------------------------------------------
# printers

def lit_text(s, quote="'", raw_ws=False):
    out = []
    for c in s:
        if c == '\\':
            out.append('\\\\')
        elif c == quote:
            out.append('\\' + quote)
        elif c == '\n':
            out.append('\\n')
        elif c == '\r':
            out.append('\\r')
        elif c == '\t' and not raw_ws:
            out.append('\\t')
        else:
            out.append(c)
    return quote + ''.join(out) + quote


class Spelling(object):
    """Switches that must not change the meaning (C08). Defaults are the canonical spelling."""
    def __init__(self, **kw):
        self.kwcase = 'upper'        # upper | lower | mixed
        self.field_style = 'aN'      # aN | a[N]
        self.quote = "'"
        self.top_style = None        # None = as in the query; 'TOP' | 'LIMIT' to force
        self.join_alt = False        # JOIN <-> INNER JOIN, LEFT JOIN <-> LEFT OUTER JOIN
        self.eq_single = False       # = instead of == in ON
        self.swap_on = False         # b.. == a.. in ON
        self.from_a = False          # redundant FROM a / UPDATE a SET
        self.update_set = True       # UPDATE SET ... vs UPDATE ...
        self.clause_perm = None      # permutation (tuple of clause names) for the clauses after SELECT/UPDATE
        self.sep = ' '               # separator between clauses: ' ' | '  ' | '\t' | '\n'
        self.comment = None          # None | 'before' | 'between' | 'after'
        self.semicolon = False
        self.inner_space = ' '       # spaces inside clauses around keywords: ' ' or '  '
        self.asc_explicit = False
        self.list_sep = ', '         # separator inside select / assignment / key lists
        self.assign_eq = ' = '       # the assignment sign in UPDATE
        self.paren_pad = ''          # blanks just inside the parentheses of aggregate / UNNEST calls: COUNT( * ), SUM( a1 )
        self.__dict__.update(kw)

    def kw(self, word):
        if self.kwcase == 'upper':
            return word.upper()
        if self.kwcase == 'lower':
            return word.lower()
        return ''.join(c.upper() if i % 2 == 0 else c.lower() for i, c in enumerate(word))


def clause_names(q, from_a=False):
    """the clauses that follow the SELECT / UPDATE list in the text of q, in canonical order (the names Spelling.clause_perm permutes)"""
    out = []
    if q['kind'] == 'select':
        if from_a: out.append('from')
        if q.get('top') and q['top'][0] == 'LIMIT': out.append('limit')
        if q.get('except_cols') is not None: out.append('except')
    if q.get('join'): out.append('join')
    if q.get('where') is not None: out.append('where')
    if q.get('group') is not None: out.append('group')
    if q.get('order') is not None: out.append('order')
    return out


def render_expr(e, lang, sp):
    k = e[0]
    R = lambda x: render_expr(x, lang, sp)
    RA = lambda x: R(x) if x[0] in ('f', 'named', 'lit', 'NR', 'NF', 'bNR', 'NU', 'aNR', 'paren', 'list', 'call', 'upper', 'split') else '(%s)' % R(x)      # the receiver of a method call / attribute: compound expressions in brackets
    if k == 'f':
        style = e[3] if len(e) > 3 else sp.field_style
        if style == 'a[N]':
            return '%s[%d]' % (e[1], e[2])
        return '%s%d' % (e[1], e[2])
    if k == 'named':
        t, name, style = e[1], e[2], e[3]
        if style == 'attr':
            return '%s.%s' % (t, name)
        if style == 'dq':
            return '%s[%s]' % (t, lit_text(name, '"'))
        if style == 'sq':
            return '%s[%s]' % (t, lit_text(name, "'"))
        return name
    if k == 'lit':
        return lit_text(e[1], e[2] if len(e) > 2 and e[2] else sp.quote, raw_ws=len(e) > 3)      # ('lit', s, quote-or-None, 'raw'): a TAB is written as the character itself, not as \\t
    if k == 'int':
        return str(e[1])
    if k == 'none':
        return 'None' if lang == 'py' else 'null'
    if k in ('NR', 'NF', 'bNR', 'NU', 'aNR'):
        return k
    if k == 'cat':
        return '%s + %s' % (R(e[1]), R(e[2]))
    if k == 'arith':
        return '%s %s %s' % (R(e[2]), e[1], R(e[3]))
    if k == 'cmp':
        return '%s %s %s' % (R(e[2]), e[1], R(e[3]))
    if k == 'and':
        return '%s %s %s' % (R(e[1]), 'and' if lang == 'py' else '&&', R(e[2]))
    if k == 'or':
        return '%s %s %s' % (R(e[1]), 'or' if lang == 'py' else '||', R(e[2]))
    if k == 'not':
        return ('not (%s)' if lang == 'py' else '!(%s)') % R(e[1])
    if k == 'ifelse':
        return ('%s if %s else %s' % (R(e[2]), R(e[1]), R(e[3]))) if lang == 'py' else ('%s ? %s : %s' % (R(e[1]), R(e[2]), R(e[3])))
    if k == 'paren':
        return '(%s)' % R(e[1])
    if k == 'like':
        return 'like(%s, %s)' % (R(e[1]), lit_text(e[2], sp.quote))
    if k == 'len':
        return ('len(%s)' % R(e[1])) if lang == 'py' else ('%s.length' % RA(e[1]))
    if k == 'upper':
        return ('%s.upper()' if lang == 'py' else '%s.toUpperCase()') % RA(e[1])
    if k == 'split':
        return '%s.split(%s)' % (RA(e[1]), lit_text(e[2], sp.quote))
    if k == 'list':
        return '[%s]' % ', '.join(R(x) for x in e[1:])
    if k == 'tuple':
        return '(%s)' % ', '.join(R(x) for x in e[1:])
    if k == 'toint':
        return ('int(%s)' if lang == 'py' else 'parseInt(%s)') % R(e[1])
    if k == 'tofloat':
        return ('float(%s)' if lang == 'py' else 'parseFloat(%s)') % R(e[1])
    if k == 'todate':
        return 'datetime.date.fromordinal(730000 + int(%s))' % R(e[1])
    if k == 'bmax':
        return 'max(%s, %s)' % (R(e[1]), R(e[2]))
    if k == 'bmin':
        return 'min(%s, %s)' % (R(e[1]), R(e[2]))
    if k == 'bminlist':
        return 'min([%s])' % ', '.join(R(x) for x in e[1:])
    if k == 'bsumlist':
        return 'sum([%s])' % ', '.join(R(x) for x in e[1:])
    if k == 'bmaxgen':
        return 'max(int(v) for v in %s.split(%s))' % (R(e[1]), lit_text(e[2], sp.quote))
    if k == 'bminmap':
        return 'min(map(int, %s.split(%s)))' % (R(e[1]), lit_text(e[2], sp.quote))
    if k == 'bsumgen':
        return 'sum(int(v) for v in %s.split(%s))' % (R(e[1]), lit_text(e[2], sp.quote))
    if k == 'agg':
        name = {'U': e[1], 'l': e[1].lower(), 'C': e[1][0] + e[1][1:].lower()}[e[2]]
        arg = e[3]
        if arg[0] == 'star':
            return '%s(%s*%s)' % (name, sp.paren_pad, sp.paren_pad)
        if len(e) > 4:
            # ARRAY_AGG's documented second argument: a callback applied to the aggregated list
            cb = {'sorted_top2': ('lambda v: sorted(v)[:2]', 'v => v.sort().slice(0, 2)'), 'count': ('lambda v: len(v)', 'v => v.length'), 'joined': ("lambda v: '|'.join(v)", "v => v.join('|')"), 'others': ('lambda v: [x for x in v if x != v[0]]', 'v => v.filter(x => x != v[0])'), 'count_minus_one': ('lambda v: len(v) - 1', 'v => v.length - 1')}[e[4]]
            return '%s(%s, %s)' % (name, R(arg), cb[0] if lang == 'py' else cb[1])
        return '%s(%s%s%s)' % (name, sp.paren_pad, R(arg), sp.paren_pad)
    if k == 'star':
        return '*' if e[1] is None else e[1] + '.*'
    if k == 'unpack':
        return ('*%s' if lang == 'py' else '...%s') % R(e[1])
    if k == 'unnest':
        return '%s(%s%s%s)' % (e[2] if len(e) > 2 else 'UNNEST', sp.paren_pad, R(e[1]), sp.paren_pad)
    if k == 'alias':
        return '%s %s %s' % (R(e[1]), e[3] if len(e) > 3 else 'AS', e[2])
    if k == 'call':
        return '%s(%s)' % (e[1], ', '.join(R(x) for x in e[2:]))
    if k == 'raw':
        return e[1] if lang == 'py' else (e[2] if len(e) > 2 else e[1])
    raise AssertionError(e)


JOIN_ALT = {'JOIN': 'INNER JOIN', 'INNER JOIN': 'JOIN', 'LEFT JOIN': 'LEFT OUTER JOIN', 'LEFT OUTER JOIN': 'LEFT JOIN', 'STRICT LEFT JOIN': 'STRICT LEFT JOIN'}


def render(q, lang='py', sp=None, join_table_id='b'):
    sp = sp or Spelling()
    S = sp.inner_space
    clauses = []   # (name, text)
    if q['kind'] == 'select':
        head = sp.kw('SELECT')
        top = q.get('top')
        style = None
        if top is not None:
            style = sp.top_style or top[0]
            if style == 'TOP':
                head += S + sp.kw('TOP') + S + str(top[1])
        if q.get('distinct') == 'distinct':
            head += S + sp.kw('DISTINCT')
        elif q.get('distinct') == 'count':
            head += S + sp.kw('DISTINCT') + S + sp.kw('COUNT')
        if q.get('except_cols') is not None:
            head += S + '*'
        else:
            head += S + sp.list_sep.join(render_expr(it, lang, sp) for it in q['items'])
        if top is not None and style == 'LIMIT':
            clauses.append(('limit', sp.kw('LIMIT') + S + str(top[1])))
        if q.get('except_cols') is not None:
            clauses.append(('except', sp.kw('EXCEPT') + S + sp.list_sep.join(render_expr(c, lang, sp) for c in q['except_cols'])))
    else:
        head = sp.kw('UPDATE')
        if sp.from_a:
            head += S + 'a' + S + sp.kw('SET')
        elif sp.update_set:
            head += S + sp.kw('SET')
        head += S + sp.list_sep.join('%s%s%s' % (render_expr(t, lang, sp), sp.assign_eq, render_expr(r, lang, sp)) for t, r in q['assign'])
    if q['kind'] == 'select' and sp.from_a:
        clauses.insert(0, ('from', sp.kw('FROM') + S + 'a'))
    j = q.get('join')
    if j is not None:
        jt = JOIN_ALT[j['type']] if sp.join_alt else j['type']
        eq = '=' if sp.eq_single else '=='
        pairs = []
        for ki, (lhs, rhs) in enumerate(j['keys']):
            l, r = render_expr(lhs, lang, sp), render_expr(rhs, lang, sp)
            # swap_on: True = every pair written b-side first; 'odd' / 'even' = only those pairs (a mix of both orders inside one ON list)
            if (sp.swap_on is True or (sp.swap_on == 'odd' and ki % 2 == 1) or (sp.swap_on == 'even' and ki % 2 == 0)) and lhs[0] == 'f':
                l, r = r, l
            pairs.append('%s %s %s' % (l, eq, r))
        clauses.append(('join', sp.kw(jt).replace(' ', S) + S + join_table_id + S + sp.kw('ON') + S + (S + ('and' if sp.kwcase != 'upper' else 'AND') + S).join(pairs)))
    if q.get('where') is not None:
        clauses.append(('where', sp.kw('WHERE') + S + render_expr(q['where'], lang, sp)))
    if q.get('group') is not None:
        clauses.append(('group', sp.kw('GROUP BY').replace(' ', S) + S + sp.list_sep.join(render_expr(g, lang, sp) for g in q['group'])))
    o = q.get('order')
    if o is not None:
        t = sp.kw('ORDER BY').replace(' ', S) + S + sp.list_sep.join(render_expr(g, lang, sp) for g in o['keys'])
        if o.get('desc'):
            t += S + sp.kw('DESC')
        elif o.get('asc_explicit') or sp.asc_explicit:
            t += S + sp.kw('ASC')
        clauses.append(('order', t))
    if sp.clause_perm is not None:
        names = [c[0] for c in clauses]
        order = [n for n in sp.clause_perm if n in names]
        assert sorted(order) == sorted(names), (order, names)
        d = dict(clauses)
        clauses = [(n, d[n]) for n in order]
    parts = [head] + [c[1] for c in clauses]
    if q.get('with_mod'):
        parts.append(sp.kw('WITH') + S + '(%s)' % q['with_mod'])
    cm = '#' if lang == 'py' else '//'
    if sp.comment == 'between' and len(parts) > 1:
        text = parts[0] + '\n' + cm + ' a comment WHERE a1 == 1\n' + '\n'.join(parts[1:])
    else:
        text = sp.sep.join(parts)
    if sp.semicolon:
        text += ';'
    if sp.comment == 'before':
        text = cm + ' leading comment select\n' + text
    elif sp.comment == 'after':
        text = text + '\n' + cm + ' trailing comment'
    return text


# ----------------------------------------------------------------------------------------------
# reference evaluation

class Env(object):
    __slots__ = ('a', 'b', 'NR', 'NF', 'bNR', 'NU', 'a_names', 'b_names')


class NotNeutral(Exception):
    """raised in strict mode when an operator receives operands on which Python and JavaScript differ"""


STRICT = [False]


def _need(cond):
    if STRICT[0] and not cond:
        raise NotNeutral()


def _is_int(x):
    return isinstance(x, int) and not isinstance(x, bool)


def safe_get(rec, i):
    return rec[i] if (rec is not None and 0 <= i < len(rec)) else None


PY_ONLY = frozenset(['toint', 'tofloat', 'todate', 'bmax', 'bmin', 'bminlist', 'bsumlist', 'bmaxgen', 'bminmap', 'bsumgen', 'call', 'tuple'])


def ev(e, env):
    k = e[0]
    if STRICT[0] and k in PY_ONLY:
        raise NotNeutral()
    if k == 'f':
        return safe_get(env.a if e[1] == 'a' else env.b, e[2] - 1)
    if k == 'named':
        names = env.a_names if e[1] == 'a' else env.b_names
        return safe_get(env.a if e[1] == 'a' else env.b, names.index(e[2]))
    if k == 'lit':
        return e[1]
    if k == 'int':
        return e[1]
    if k == 'none':
        return None
    if k == 'NR' or k == 'aNR':
        return env.NR
    if k == 'NF':
        return env.NF
    if k == 'bNR':
        return env.bNR
    if k == 'NU':
        return env.NU
    if k == 'cat':
        x, y = ev(e[1], env), ev(e[2], env)
        _need(isinstance(x, str) and isinstance(y, str))
        return x + y
    if k == 'arith':
        x, y = ev(e[2], env), ev(e[3], env)
        _need(_is_int(x) and _is_int(y))
        return x + y if e[1] == '+' else (x - y if e[1] == '-' else x * y)
    if k == 'cmp':
        x, y = ev(e[2], env), ev(e[3], env)
        op = e[1]
        if op in ('==', '!='):
            _need(x is None or y is None or (type(x) is type(y) and isinstance(x, (str, int)) and not isinstance(x, bool)))
        else:
            _need(type(x) is type(y) and isinstance(x, (str, int)) and not isinstance(x, bool))
        if op == '==':
            return x == y
        if op == '!=':
            return x != y
        if op == '<':
            return x < y
        if op == '>':
            return x > y
        if op == '<=':
            return x <= y
        return x >= y
    if k == 'and':
        x = ev(e[1], env)
        _need(isinstance(x, bool))
        if not x:
            return x
        y = ev(e[2], env)
        _need(isinstance(y, bool))
        return y
    if k == 'or':
        x = ev(e[1], env)
        _need(isinstance(x, bool))
        if x:
            return x
        y = ev(e[2], env)
        _need(isinstance(y, bool))
        return y
    if k == 'not':
        x = ev(e[1], env)
        _need(isinstance(x, bool))
        return not x
    if k == 'ifelse':
        c = ev(e[1], env)
        _need(isinstance(c, bool))
        return ev(e[2], env) if c else ev(e[3], env)
    if k == 'paren':
        return ev(e[1], env)
    if k == 'like':
        t = ev(e[1], env)
        _need(isinstance(t, str))
        if not isinstance(t, str):
            raise TypeError('like on non-string')
        return reflike.like(t, e[2])
    if k == 'len':
        x = ev(e[1], env)
        _need(isinstance(x, str))
        return len(x)
    if k == 'upper':
        x = ev(e[1], env)
        _need(isinstance(x, str))
        return x.upper()
    if k == 'split':
        x = ev(e[1], env)
        _need(isinstance(x, str) and e[2] != '')
        return x.split(e[2])
    if k == 'list':
        return [ev(x, env) for x in e[1:]]
    if k == 'tuple':
        return tuple(ev(x, env) for x in e[1:])
    if k == 'call':
        return {'max': max, 'min': min}[e[1]](*[ev(x, env) for x in e[2:]])
    if k in ('toint', 'tofloat', 'todate', 'bmax', 'bmin', 'bminlist', 'bsumlist', 'call', 'tuple'):
        _need(False)
    if k == 'toint':
        return int(ev(e[1], env))
    if k == 'tofloat':
        return float(ev(e[1], env))
    if k == 'todate':
        import datetime
        return datetime.date.fromordinal(730000 + int(ev(e[1], env)))
    if k == 'bmax':
        return max(ev(e[1], env), ev(e[2], env))
    if k == 'bmin':
        return min(ev(e[1], env), ev(e[2], env))
    if k == 'bminlist':
        return min([ev(x, env) for x in e[1:]])
    if k == 'bsumlist':
        return sum([ev(x, env) for x in e[1:]])
    if k == 'bmaxgen':
        return max(int(v) for v in ev(e[1], env).split(e[2]))
    if k == 'bminmap':
        return min(map(int, ev(e[1], env).split(e[2])))
    if k == 'bsumgen':
        return sum(int(v) for v in ev(e[1], env).split(e[2]))
    if k == 'alias':
        return ev(e[1], env)
    raise AssertionError(e)


def truth(e, env):
    v = ev(e, env)
    _need(isinstance(v, bool))
    return v


class _Unnest(object):
    def __init__(self, vals):
        self.vals = vals


def eval_items(items, env):
    """Returns list of output records for this pairing (0, 1 or several with UNNEST)."""
    out = []
    unnest_pos = None
    unnest_vals = None
    for it in items:
        it = strip_alias(it)
        if it[0] == 'star':
            if it[1] is None:
                out.extend(env.a)
                if env.b is not None:
                    out.extend(env.b)
            elif it[1] == 'a':
                out.extend(env.a)
            else:
                out.extend(env.b)
        elif it[0] == 'unpack':
            vals = ev(it[1], env)
            if not isinstance(vals, (list, tuple)):
                raise TypeError('unpack of a non-list')
            out.extend(vals)
        elif it[0] == 'unnest':
            vals = ev(it[1], env)
            vals = list(vals)     # must be iterable
            unnest_pos = len(out)
            unnest_vals = vals
            out.append(None)
        else:
            out.append(ev(it, env))
    if unnest_pos is None:
        return [out]
    res = []
    for v in unnest_vals:
        r = list(out)
        r[unnest_pos] = v
        res.append(r)
    return res


def to_number(v):
    """Aggregate argument conversion: numeric strings become numbers (exact)."""
    if isinstance(v, bool):
        return Fraction(int(v))
    if isinstance(v, int):
        return Fraction(v)
    if isinstance(v, float):
        return Fraction(v)
    if isinstance(v, str):
        s = v.strip()
        try:
            return Fraction(int(s))
        except ValueError:
            pass
        f = float(s)        # ValueError for non-numeric => the reference says: query fails here
        return Fraction(f)
    raise TypeError('not numeric')


def agg_final(kind, vals):
    if kind == 'COUNT':
        return len(vals)
    if kind == 'ARRAY_AGG':
        return list(vals)
    if kind == 'ANY_VALUE':
        return vals[0]
    import datetime
    if vals and kind in ('MIN', 'MAX') and all(isinstance(v, datetime.date) for v in vals):
        return min(vals) if kind == 'MIN' else max(vals)       # ordered values that are neither text nor numbers: compared as they are
    nums = [to_number(v) for v in vals]
    if kind == 'MIN':
        return min(nums)
    if kind == 'MAX':
        return max(nums)
    # the scale against which a floating-point result is judged: the operands, not the (possibly cancelling) exact result
    big = max(abs(x) for x in nums)
    if kind == 'SUM':
        return Scaled(sum(nums), big * len(nums))
    if kind == 'AVG':
        return Scaled(sum(nums) / len(nums), big)
    if kind == 'VARIANCE':
        n = len(nums)
        mean = sum(nums) / n
        return Scaled(sum(x * x for x in nums) / n - mean * mean, big * big)
    if kind == 'MEDIAN':
        s = sorted(nums)
        m = len(s) // 2
        if len(s) % 2:
            return s[m]
        return Scaled((s[m - 1] + s[m]) / 2, big)
    raise AssertionError(kind)


class Scaled(Fraction):
    """an exact rational result that remembers the magnitude of its operands: a float answer is accepted within 1e-9 of that magnitude
    (summing 1e-11 + 3e-11 - 2e-11 - 2e-11 in floating point gives 0.0 or 3e-27, never the exact rational sum of the parsed doubles)"""
    def __new__(cls, value, scale):
        self = Fraction.__new__(cls, value)
        self.scale = Fraction(scale)
        return self


def join_matches(q, A_rec, nr, B, bmaxlen):
    """Returns list of (bNR, record_b). Raises RefError for missing key fields / strict failures."""
    j = q['join']
    def akey():
        ks = []
        for lhs, _ in j['keys']:
            if lhs[0] in ('NR', 'aNR'):
                ks.append(nr)
            else:
                idx = lhs[2] - 1
                if idx >= len(A_rec):
                    raise RefError('runtime', nr, 'No "a%d" field' % (idx + 1))
                ks.append(A_rec[idx])
        return ks
    ka = akey()
    out = []
    for bi, brec in enumerate(B):
        kb = []
        for _, rhs in j['keys']:
            if rhs[0] == 'bNR':
                kb.append(bi + 1)
            else:
                kb.append(brec[rhs[2] - 1])
        if all(type(x) is type(y) and x == y for x, y in zip(ka, kb)):
            out.append((bi + 1, brec))
    jt = j['type']
    if jt in ('LEFT JOIN', 'LEFT OUTER JOIN') and not out:
        return [(None, [None] * bmaxlen)], True
    if jt == 'STRICT LEFT JOIN' and len(out) != 1:
        raise RefError('runtime', nr, 'strict left join')
    return out, False


def check_b_keys(q, B):
    j = q['join']
    for bi, brec in enumerate(B):
        for _, rhs in j['keys']:
            if rhs[0] != 'bNR' and rhs[2] - 1 >= len(brec):
                raise RefError('runtime_b', bi + 1, 'B key missing')


def evaluate_neutral(q, A, B=None, a_names=None, b_names=None):
    """Reference outcome for the language-neutral reading, or None if the case feeds an operator with operands on which Python and JavaScript differ."""
    exprs = list(q.get('items') or []) + [q.get('where')] + list(q.get('group') or []) + (list(q['order']['keys']) if q.get('order') else []) + [r for _, r in (q.get('assign') or [])]
    for e in exprs:
        if e is not None and any(isinstance(x, tuple) and x and x[0] in PY_ONLY for x in walk(e)):
            return None      # Python-only vocabulary: never language-neutral, whatever the table
    STRICT[0] = True
    try:
        return evaluate(q, A, B, a_names, b_names)
    except NotNeutral:
        return None
    finally:
        STRICT[0] = False


def evaluate(q, A, B=None, a_names=None, b_names=None, limit_pull=None):
    """Reference outcome. A, B: lists of lists. Never mutates its inputs."""
    try:
        hdr = ref_header(q, a_names, b_names)
        recs, alts, pulled = _evaluate(q, A, B, a_names, b_names)
        return Outcome(records=recs, header=hdr, alts=alts, pulled=pulled)
    except RefError as e:
        if q['kind'] == 'select' and q.get('top') is not None and q['top'][1] == 0 and e.cls in ('runtime', 'parsing'):
            # LIMIT 0: nothing can be output, so the input need not be read at all; an engine that does read it and
            # trips over a bad record is equally within the statements. Both outcomes are accepted.
            o = Outcome(records=[], header=ref_header(q, a_names, b_names), pulled=0)
            o.alt_error = (e.cls, e.nr)
            return o
        return Outcome(error=(e.cls, e.nr))


def _evaluate(q, A, B, a_names, b_names):
    env = Env()
    env.a_names, env.b_names = a_names, b_names
    env.NU = 0
    alts = {}
    j = q.get('join')
    bmaxlen = 0
    if j is not None:
        check_b_keys(q, B)
        bmaxlen = max([len(r) for r in B] + [0])
    where = q.get('where')

    def pairings(nr, rec):
        env.a, env.NR, env.NF = rec, nr, len(rec)
        if j is None:
            env.b, env.bNR = None, None
            yield False
        else:
            ms, isnull = join_matches(q, rec, nr, B, bmaxlen)
            for bnr, brec in ms:
                env.b, env.bNR = brec, bnr
                yield isnull

    def guarded(nr, fn):
        try:
            return fn()
        except (RefError, NotNeutral):
            raise
        except Exception as e:
            raise RefError('runtime', nr, repr(e))

    if q['kind'] == 'update':
        out = []
        for i, rec in enumerate(A):
            nr = i + 1
            env.a, env.NR, env.NF = rec, nr, len(rec)
            new = list(rec)
            if j is None:
                env.b, env.bNR = None, None
                matched, isnull = True, False
            else:
                ms, isnull = join_matches(q, rec, nr, B, bmaxlen)
                if len(ms) > 1:
                    raise RefError('runtime', nr, 'more than one match in UPDATE')
                matched = len(ms) == 1
                if matched:
                    env.bNR, env.b = ms[0]
                else:
                    env.bNR, env.b = None, None
            if matched and guarded(nr, lambda: where is None or truth(where, env)):
                env.NU += 1
                for tgt, rhs in q['assign']:
                    v = guarded(nr, lambda: ev(rhs, env))
                    idx = (tgt[2] - 1) if tgt[0] == 'f' else a_names.index(tgt[2])
                    if idx >= len(new):
                        raise RefError('runtime', nr, 'No "a%d" field' % (idx + 1))
                    new[idx] = v
                if isnull:
                    alts[len(out)] = list(rec)   # C05 wording "no partner => unchanged" vs C04 "paired with all-None": both accepted
            out.append(new)
        return out, alts, len(A)

    items = q['items']
    if q.get('except_cols') is not None:
        skip = set()
        for c in q['except_cols']:
            skip.add((c[2] - 1) if c[0] == 'f' else a_names.index(c[2]))
    aggregate = q_is_aggregate(q)
    if aggregate:
        if q.get('order') is not None or q.get('distinct'):
            raise RefError('parsing', None, 'order/distinct in aggregate query')
        for it in items:
            s = strip_alias(it)
            if has_agg(s) and s[0] != 'agg':
                # aggregate inside an expression: parsing error once a record passes WHERE
                pass
        groups = {}
        order_keys = []
        for i, rec in enumerate(A):
            nr = i + 1
            for _isnull in pairings(nr, rec):
                if not guarded(nr, lambda: where is None or truth(where, env)):
                    continue
                for it in items:
                    s = strip_alias(it)
                    if has_agg(s) and s[0] != 'agg':
                        raise RefError('parsing', None, 'aggregate inside expression')
                vals = []
                for it in items:
                    s = strip_alias(it)
                    if s[0] == 'agg':
                        if s[3][0] == 'star':
                            vals.append(1)
                        else:
                            vals.append(guarded(nr, lambda: ev(s[3], env)))
                    else:
                        vals.append(guarded(nr, lambda: ev(s, env)))
                key = tuple(guarded(nr, lambda: [ev(g, env) for g in q['group']])) if q.get('group') is not None else None
                if key not in groups:
                    groups[key] = [[] for _ in items]
                g = groups[key]
                for col, (it, v) in enumerate(zip(items, vals)):
                    s = strip_alias(it)
                    if s[0] == 'agg':
                        import datetime
                        if s[1] not in ('COUNT', 'ARRAY_AGG', 'ANY_VALUE') and not (s[1] in ('MIN', 'MAX') and isinstance(v, datetime.date)):
                            guarded(nr, lambda: to_number(v))
                        g[col].append(v)
                    else:
                        if g[col] and g[col][0] != v:
                            raise RefError('runtime', nr, 'non-constant column')
                        g[col].append(v)
        out = []
        for key in sorted(groups.keys()) if q.get('group') is not None else list(groups.keys()):
            g = groups[key]
            row = []
            for col, it in enumerate(items):
                s = strip_alias(it)
                if s[0] == 'agg':
                    v_ = agg_final(s[1], g[col])
                    if len(s) > 4:
                        _need(all(isinstance(x, str) for x in v_))      # text values only: sorting / joining mean the same in both languages
                        v_ = {'sorted_top2': lambda v: sorted(v)[:2], 'count': len, 'joined': lambda v: '|'.join(v), 'others': lambda v: [x for x in v if x != v[0]], 'count_minus_one': lambda v: len(v) - 1}[s[4]](v_)
                    row.append(v_)
                else:
                    row.append(g[col][0])
            out.append(row)
        top = q.get('top')
        if top is not None:
            out = out[:top[1]]
        return out, alts, len(A)

    # plain select
    order = q.get('order')
    distinct = q.get('distinct')
    top = q.get('top')
    streaming_bound = top is not None and order is None and distinct != 'count'
    produced = []     # (sort_key, record)
    seen = set()
    n_out = 0
    pulled = 0
    stop = False
    for i, rec in enumerate(A):
        if stop:
            break
        nr = i + 1
        pulled = nr
        if streaming_bound and top[1] == 0:
            # nothing can be output; the reference needs no input at all
            pulled = 0
            break
        for _isnull in pairings(nr, rec):
            if not guarded(nr, lambda: where is None or truth(where, env)):
                continue
            if q.get('except_cols') is not None:
                rows = [[v for idx, v in enumerate(rec) if idx not in skip]]
            else:
                rows = guarded(nr, lambda: eval_items(items, env))
            skey = tuple(guarded(nr, lambda: [ev(g, env) for g in order['keys']])) if order is not None else None
            for r in rows:
                if streaming_bound:
                    if distinct == 'distinct':
                        t = guarded(nr, lambda: tuple(r))
                        guarded(nr, lambda: hash(t))
                        if t in seen:
                            continue
                        seen.add(t)
                    produced.append((skey, r))
                    n_out += 1
                    if n_out >= top[1]:
                        stop = True
                        break
                else:
                    if distinct:
                        if order is None:
                            guarded(nr, lambda: hash(tuple(r)))      # an unhashable field fails the query at this record
                        else:
                            try:
                                hash(tuple(r))
                            except TypeError as e:
                                raise RefError('sort', None, repr(e))   # surfaces after the loop: outside every property
                    produced.append((skey, r))
            if stop:
                break
    if streaming_bound:
        return [r for _, r in produced], alts, pulled
    if order is not None:
        try:
            produced = sorted(produced, key=lambda x: x[0])
        except TypeError as e:
            raise RefError('sort', None, repr(e))
        if order.get('desc'):
            produced.reverse()
    rows = [r for _, r in produced]
    if distinct == 'distinct':
        out = []
        for r in rows:
            t = tuple(r)
            if t in seen:
                continue
            seen.add(t)
            out.append(r)
        rows = out
    elif distinct == 'count':
        cnt = {}
        orderk = []
        for r in rows:
            t = tuple(r)
            if t not in cnt:
                cnt[t] = 0
                orderk.append(t)
            cnt[t] += 1
        rows = [[cnt[t]] + list(t) for t in orderk]
    if top is not None:
        rows = rows[:top[1]]
    return rows, alts, len(A)


# ----------------------------------------------------------------------------------------------
# header rule (C07)

def item_name(it, pos, a_names, b_names):
    """Returns list of names contributed by one select item; pos = 1-based output position of its first column."""
    if it[0] == 'alias':
        return [it[2]]
    k = it[0]
    if k == 'star':
        if it[1] is None:
            return list(a_names) + list(b_names or [])
        return list(a_names) if it[1] == 'a' else list(b_names or [])
    if k == 'f':
        names = a_names if it[1] == 'a' else (b_names or [])
        if it[2] - 1 < len(names):
            return [names[it[2] - 1]]
        return ['col%d' % pos]
    if k == 'named':
        return [it[2]]
    if k in ('NR', 'NF', 'bNR', 'NU', 'aNR'):
        return [k]
    return ['col%d' % pos]


def ref_header(q, a_names, b_names):
    """Output header per the documented rule, or None when no header is produced."""
    if q['kind'] == 'update':
        return list(a_names) if a_names is not None else None
    if q.get('except_cols') is not None:
        if a_names is None:
            return None
        skip = set((c[2] - 1) if c[0] == 'f' else a_names.index(c[2]) for c in q['except_cols'])
        return (['<count>'] if q.get('distinct') == 'count' else []) + [n for i, n in enumerate(a_names) if i not in skip]
    has_alias = any(it[0] == 'alias' for it in q['items'])
    if a_names is None:
        if has_alias and any(it[0] == 'star' for it in q['items']):
            raise RefError('parsing', None, 'star and alias without header')
        if not has_alias:
            return None
        a_names, b_names = [], []
    out = ['<count>'] if q.get('distinct') == 'count' else []     # the name of the count column is left free
    for it in q['items']:
        out.extend(item_name(it, len(out) + 1, a_names, b_names))   # K in colK = position in the output
    return out


# ----------------------------------------------------------------------------------------------
# comparison

def same_value(exp, got, tol=1e-9):
    if isinstance(exp, Fraction):
        if isinstance(got, bool) or not isinstance(got, (int, float)):
            return False
        if exp == 0 and not getattr(exp, 'scale', 0):
            return abs(got) <= tol
        if isinstance(got, float) or exp.denominator != 1:      # an int where the exact result is not an integer: a rounded float that came back through JSON
            if isinstance(got, float) and (got != got or got in (float('inf'), float('-inf'))):
                return False
            return abs(Fraction(got) - exp) <= tol * max(abs(exp), getattr(exp, 'scale', 0))
        return Fraction(got) == exp
    if isinstance(exp, list):
        return isinstance(got, list) and len(exp) == len(got) and all(same_value(x, y, tol) for x, y in zip(exp, got))
    if isinstance(exp, bool) or isinstance(got, bool):
        return type(exp) is type(got) and exp == got
    if isinstance(exp, (int, float)) and isinstance(got, (int, float)) and not isinstance(got, bool):
        return exp == got or (isinstance(exp, float) and abs(exp - got) <= tol * max(1.0, abs(exp)))
    if exp is None:
        return got is None
    return type(exp) is type(got) and exp == got


def same_records(exp_records, got_records, alts=None):
    if got_records is None or len(exp_records) != len(got_records):
        return False
    for i, (e, g) in enumerate(zip(exp_records, got_records)):
        if not isinstance(g, list):
            return False
        if len(e) == len(g) and all(same_value(x, y) for x, y in zip(e, g)):
            continue
        if alts and i in alts and len(alts[i]) == len(g) and all(same_value(x, y) for x, y in zip(alts[i], g)):
            continue
        return False
    return True
