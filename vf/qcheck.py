"""Shared machinery for the relational checks: run one (query, tables) case on the real engine and judge it with RefQL."""
import itertools
from vf import refql, drive


def de_bruijn(k, n):
    """de Bruijn sequence over range(k), order n (every n-window appears once, cyclically)."""
    a = [0] * (k * n)
    seq = []
    def db(t, p):
        if t > n:
            if n % p == 0:
                seq.extend(a[1:p + 1])
        else:
            a[t] = a[t - p]
            db(t + 1, p)
            for j in range(a[t - p] + 1, k):
                a[t] = j
                db(t + 1, t)
    db(1, 1)
    return seq + seq[:n - 1]


def tables_upto(rows, maxrows):
    """prefix-closed tree of all row sequences of length <= maxrows"""
    for n in range(0, maxrows + 1):
        for t in itertools.product(range(len(rows)), repeat=n):
            yield [rows[i] for i in t]


def long_table(rows, order):
    return [rows[i] for i in de_bruijn(len(rows), order)]


def copy_table(T):
    return None if T is None else [list(r) for r in T]


def compare(exp, got, check_header=True):
    """Returns None if the engine outcome agrees with the reference outcome, else a short reason."""
    if exp.error is not None:
        cls, nr = exp.error
        if cls == 'sort':
            return None   # incomparable sort keys (None against a string): outside every property, whatever the engine does
        if got['error'] is None:
            return 'expected %s error%s, query succeeded' % (cls, '' if nr is None else ' at record %d' % nr)
        gcls, gnr, _ = got['error']
        if cls == 'sort':
            return None   # outside every property (incomparable sort keys)
        if gcls != cls:
            return 'expected %s error, got %s' % (cls, gcls)
        if nr is not None and gnr != nr:
            return 'error names record %s, expected %s' % (gnr, nr)
        return None
    if got['error'] is not None:
        if exp.alt_error is not None and got['error'][0] == exp.alt_error[0] and (exp.alt_error[1] is None or got['error'][1] == exp.alt_error[1]):
            return None
        return 'unexpected error %s: %s' % (got['error'][0], got['error'][2][:120])
    if not refql.same_records(exp.records, got['records'], exp.alts):
        return 'records differ'
    if check_header:
        eh, gh = exp.header, got['header']
        if eh is None:
            if gh:
                return 'unexpected header %r' % (gh,)
        else:
            if gh is None:
                gh = []
            if len(eh) != len(gh):
                return 'header length %d, expected %d' % (len(gh), len(eh))
            for x, y in zip(eh, gh):
                if x != '<count>' and x != y:
                    return 'header name %r, expected %r' % (y, x)
    return None


def aliasing(got, A2, B2):
    """Does an output row share identity with an input / join row?"""
    if got['records'] is None:
        return False
    ids = set(id(r) for r in A2)
    if B2 is not None:
        ids |= set(id(r) for r in B2)
    return any(id(r) in ids for r in got['records'])


def run_case(res, q, A, B=None, a_names=None, b_names=None, diagnose=None, check_header=True, text=None, kind='py', runner=None):
    """Execute and judge one case. Returns (exp, got, reason)."""
    text = text if text is not None else refql.render(q)
    exp = refql.evaluate(q, A, B, a_names, b_names)
    A2, B2 = copy_table(A), copy_table(B)
    got = (runner or drive.run_py)(text, A2, B2, a_names, b_names)
    res.evaluations += 1
    res.traces += 1
    why = compare(exp, got, check_header)
    if why is None and (A2 != A or B2 != B):
        why = 'source table modified'
    if why is None and aliasing(got, A2, B2):
        why = 'output row aliases a source row'
    if why is not None:
        sig = diagnose(q, A, B, exp, got, why) if diagnose else 'mismatch'
        res.violation(sig, {'query': text, 'q': q, 'A': A, 'B': B, 'a_names': a_names, 'b_names': b_names},
                      {'records': exp.records, 'error': exp.error, 'header': exp.header},
                      {'records': got['records'], 'error': got['error'], 'header': got['header']}, why)
    return exp, got, why


def js_got(out):
    """node driver result -> the dict shape of drive.run_py"""
    if 'error' in out:
        return {'records': None, 'partial': out.get('partial'), 'header': None, 'warnings': [], 'error': drive.classify_js(out['error'])}
    return {'records': out['records'], 'header': out.get('header') or None, 'warnings': out.get('warnings', []), 'error': None, 'alias': out.get('alias')}


def run_js_cases(res, cases, diagnose=None, check_header=True, tag='js'):
    """cases: list of (q, A, B, a_names, b_names). Runs the language-neutral ones through rbql-js (one node process) and judges them with RefQL.
    Returns the number of cases actually run."""
    from vf import js
    if not js.available():
        res.feat('js_skipped')
        return 0
    batch, metas = [], []
    for q, A, B, a_names, b_names in cases:
        exp = refql.evaluate_neutral(q, A, B, a_names, b_names)
        if exp is None:
            res.feat('js_not_neutral_skipped')
            continue
        # the clause separator rotates over the cases (runs of blanks, tab + blank, line break): legal spellings of the same query
        nth = len(batch) % 12
        if nth in (3, 7, 11):
            cn = refql.clause_names(q)
            text = refql.render(q, 'js', refql.Spelling(sep={3: '   ', 7: '\t ', 11: '\n'}[nth], clause_perm=(tuple(reversed(cn)) if nth != 11 else tuple(cn))))    # and the clauses in reverse order (ORDER BY ... DESC is then followed by another clause)
        else:
            text = refql.render(q, 'js')
        c = {'op': 'query', 'query': text, 'input': A}
        if B is not None:
            c['join'] = B
        if a_names is not None:
            c['input_names'] = a_names
        if b_names is not None:
            c['join_names'] = b_names
        batch.append(c)
        metas.append((q, A, B, a_names, b_names, exp, text))
    outs = js.run_batch(batch)
    for (q, A, B, a_names, b_names, exp, text), out in zip(metas, outs):
        got = js_got(out)
        res.evaluations += 1
        res.traces += 1
        res.feat('js_cases')
        why = compare(exp, got, check_header)
        if why is None and out.get('input_after') != core_jsonable(A):
            why = 'caller\'s input array modified'
        if why is None and B is not None and out.get('join_after') != core_jsonable(B):
            why = 'caller\'s join array modified'
        if why is None and out.get('alias'):
            why = 'output row aliases a source row'
        if why is not None:
            sig = tag + ':' + (diagnose(q, A, B, exp, got, why) if diagnose else 'mismatch')
            res.violation(sig, {'lang': 'js', 'query': text, 'q': q, 'A': A, 'B': B, 'a_names': a_names, 'b_names': b_names},
                          {'records': exp.records, 'error': exp.error, 'header': exp.header},
                          {'records': got['records'], 'error': got['error'], 'header': got['header'], 'input_after': out.get('input_after')}, why)
        elif exp.error is None and exp.records:
            res.feat('js_nonempty_agree')
    return len(batch)


def core_jsonable(x):
    from vf.core import jsonable
    return jsonable(x)


def multi_match(q, A, B):
    """some A record has >= 2 key-equal B records"""
    if q.get('join') is None or not B:
        return False
    for i, rec in enumerate(A):
        try:
            ms, _ = refql.join_matches(q, rec, i + 1, B, 0)
        except refql.RefError:
            return False
        if len(ms) >= 2:
            return True
    return False


def replay_case(rep):
    """generic replay for cases produced by run_case"""
    from vf.core import jsonable
    c = rep['case']
    q = detuple(c['q'])
    exp = refql.evaluate(q, c['A'], c['B'], c['a_names'], c['b_names'])
    got = drive.run_py(c['query'], copy_table(c['A']), copy_table(c['B']), c['a_names'], c['b_names'])
    why = compare(exp, got)
    print('query:', c['query'])
    print('A:', c['A'], 'B:', c['B'])
    print('reference:', exp)
    print('engine   :', {k: got[k] for k in ('records', 'header', 'error')})
    print('verdict  :', why or 'agree')
    return 1 if why else 0


def detuple(x):
    """JSON turned tuples into lists; expression nodes are lists whose first element is a str tag"""
    if isinstance(x, list):
        y = [detuple(v) for v in x]
        if y and isinstance(y[0], str) and y[0] in _TAGS:
            return tuple(y)
        return y
    if isinstance(x, dict):
        return {k: detuple(v) for k, v in x.items()}
    return x


_TAGS = set(['f', 'named', 'lit', 'int', 'none', 'NR', 'NF', 'bNR', 'NU', 'aNR', 'cat', 'arith', 'cmp', 'and', 'or', 'not', 'like', 'len', 'upper',
             'split', 'list', 'tuple', 'toint', 'tofloat', 'bmax', 'bmin', 'bminlist', 'bsumlist', 'bmaxgen', 'bminmap', 'bsumgen', 'agg', 'star', 'unnest', 'alias', 'call', 'paren', 'raw', 'TOP', 'LIMIT'])
