"""python -m vf.run C11 --tier quick|thorough [--replay file]"""
import os, sys, json, time, argparse, importlib

os.environ.setdefault('PYTHONHASHSEED', '0')
os.environ.setdefault('PYTHONDONTWRITEBYTECODE', '1')


def main():
    ap = argparse.ArgumentParser()
    ap.add_argument('pid')
    ap.add_argument('--tier', default=os.environ.get('VERIF_TIER', 'quick'), choices=['quick', 'thorough'])
    ap.add_argument('--replay')
    args = ap.parse_args()
    seed = int(os.environ.get('VERIF_SEED', '0') or 0)
    try:
        from vf import tree
        tree.load()
        mod = importlib.import_module('vf.checks.' + args.pid.lower())
    except BaseException:
        import traceback
        traceback.print_exc()
        sys.stderr.write('HARNESS-ERROR: the tree does not import (or the check module is broken)\n')
        sys.stdout.flush()
        os._exit(2)
    if args.replay:
        with open(args.replay) as f:
            rep = json.load(f)
        sys.exit(mod.replay(rep))
    try:
        rc = mod.main(args.tier, seed)
    except SystemExit:
        raise
    except BaseException:
        import traceback
        traceback.print_exc()
        sys.stderr.write('HARNESS-ERROR: uncaught exception in the check driver\n')
        sys.stdout.flush()
        os._exit(2)
    sys.exit(rc)


if __name__ == '__main__':
    main()
