"""RefCSV: a deliberately boring, regex-free reference for the RBQL CSV dialect.

Written from the dialect description (README / property statements), never importing rbql.
"""

QUOTE = '"'


def _try_quoted(line, p, dlm, allow_spaces):
    """Try to read a quoted field starting at p. Returns (content, raw_end) or None.
    raw_end is the index just after the field (at a delimiter or at len(line))."""
    n = len(line)
    q = p
    if allow_spaces:
        while q < n and line[q] == ' ':
            q += 1
    if q >= n or line[q] != QUOTE:
        return None
    q += 1
    out = []
    while True:
        if q >= n:
            return None            # no closing quote
        c = line[q]
        if c == QUOTE:
            if q + 1 < n and line[q + 1] == QUOTE:
                out.append(QUOTE)
                q += 2
                continue
            q += 1
            break
        out.append(c)
        q += 1
    if allow_spaces:
        while q < n and line[q] == ' ':
            q += 1
    if q == n or line.startswith(dlm, q):
        return (''.join(out), q)
    return None


def ref_split_quoted(line, dlm, preserve=False):
    """Returns (fields, warning)."""
    assert dlm and QUOTE not in dlm
    fields = []
    warning = False
    allow_spaces = dlm != ' '
    p = 0
    n = len(line)
    while True:
        got = _try_quoted(line, p, dlm, allow_spaces)
        if got is not None:
            content, end = got
            fields.append(line[p:end] if preserve else content)
        else:
            end = line.find(dlm, p)
            if end == -1:
                end = n
            f = line[p:end]
            if QUOTE in f:
                warning = True
            fields.append(f)
        if end >= n:
            break
        p = end + len(dlm)
    return fields, warning


def ref_split_whitespace(line):
    out = []
    cur = []
    for c in line:
        if c == ' ':
            if cur:
                out.append(''.join(cur))
                cur = []
        else:
            cur.append(c)
    if cur:
        out.append(''.join(cur))
    return out


def ref_split(line, dlm, policy, preserve=False):
    if policy == 'simple':
        return line.split(dlm), False
    if policy == 'whitespace':
        return ref_split_whitespace(line), False
    if policy == 'monocolumn':
        return [line], False
    return ref_split_quoted(line, dlm, preserve)


def ref_quote(field, dlm, policy):
    if policy == 'quoted':
        if QUOTE in field or dlm in field:
            return QUOTE + field.replace(QUOTE, QUOTE * 2) + QUOTE
        return field
    if policy == 'quoted_rfc':
        if QUOTE in field or dlm in field or '\n' in field or '\r' in field:
            return QUOTE + field.replace(QUOTE, QUOTE * 2) + QUOTE
        return field
    return field


def ref_write(table, dlm, policy, line_sep='\n'):
    """table: list of lists of str (no None)."""
    parts = []
    for rec in table:
        if policy == 'monocolumn':
            assert len(rec) == 1
            parts.append(rec[0])
        else:
            parts.append(dlm.join(ref_quote(f, dlm, policy) for f in rec))
        parts.append(line_sep)
    return ''.join(parts)


def ref_lines(text):
    """Physical lines: LF, CR, CRLF terminate; a final unterminated non-empty line counts."""
    lines = []
    cur = []
    i = 0
    n = len(text)
    while i < n:
        c = text[i]
        if c == '\n':
            lines.append(''.join(cur)); cur = []
            i += 1
        elif c == '\r':
            lines.append(''.join(cur)); cur = []
            i += 2 if (i + 1 < n and text[i + 1] == '\n') else 1
        else:
            cur.append(c)
            i += 1
    if cur:
        lines.append(''.join(cur))
    return lines


class ReadResult(object):
    def __init__(self):
        self.header = None
        self.records = []
        self.bom = False
        self.first_defective_line = None
        self.error = None          # ('io', record_no, line_no)
        self.fields_info = {}      # num_fields -> first record number (header counted when present)

    def key(self):
        return (self.header, self.records, self.bom, self.first_defective_line, self.error)


def ref_read(text, dlm, policy, has_header=False, comment_prefix=None, bom_char=None):
    """Reference reader over *decoded* text. bom_char: '\\ufeff' for utf-8, '\\xef\\xbb\\xbf' for latin-1, None."""
    res = ReadResult()
    lines = ref_lines(text)
    if lines and bom_char and lines[0].startswith(bom_char):
        lines[0] = lines[0][len(bom_char):]
        res.bom = True
    elif not lines and bom_char and False:
        pass
    recs = []
    i = 0
    nl = 0
    nr = 0
    n = len(lines)
    while i < n:
        line = lines[i]
        i += 1
        nl += 1
        is_comment = comment_prefix and line.startswith(comment_prefix)
        if policy == 'quoted_rfc' and not is_comment and line.count(QUOTE) % 2 == 1:
            buf = [line]
            while i < n:
                row = lines[i]
                i += 1
                nl += 1
                buf.append(row)
                if row.count(QUOTE) % 2 == 1:
                    break
            line = '\n'.join(buf)
        if is_comment:
            continue
        nr += 1
        fields, warn = ref_split(line, dlm, policy)
        if warn and res.first_defective_line is None:
            res.first_defective_line = nl
            if policy == 'quoted_rfc':
                res.error = ('io', nr, nl)
                break
        if len(fields) not in res.fields_info:
            res.fields_info[len(fields)] = nr
        recs.append(fields)
    if has_header and recs:
        res.header = recs[0]
        res.records = recs[1:]
    else:
        res.records = recs
    return res
