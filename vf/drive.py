"""Drive the real engines with a rendered query and classify the outcome."""
import re
from vf import tree, core

# wording-tolerant: the statements only require that the message names the 1-based record number (and, for a JOIN table, says so)
_RX_REC = re.compile(r'record[^0-9\n]{0,3}(\d+)', re.IGNORECASE)
_RX_B = re.compile(r'record[^0-9\n]{0,3}(\d+)[^\n]{0,20}(?:"B"|\bB\b|join)[^\n]{0,10}table', re.IGNORECASE)


_CONFIRMED_TIMEOUTS = [0]      # per worker process: after three confirmed timeouts further ones are believed at once


def classify_py(e):
    eng = tree.engine()
    msg = str(e)
    if isinstance(e, eng.RbqlRuntimeError):
        m = _RX_B.search(msg.split('Details:')[0])
        if m:
            return ('runtime_b', int(m.group(1)), msg)
        m = _RX_REC.search(msg.split('Details:')[0])
        if m:
            return ('runtime', int(m.group(1)), msg)
        return ('runtime', None, msg)
    if isinstance(e, eng.RbqlParsingError):
        return ('parsing', None, msg)
    if isinstance(e, eng.RbqlIOHandlingError):
        return ('io', None, msg)
    if isinstance(e, core.CaseTimeout):
        return ('TIMEOUT', None, '')
    return ('EXC:' + type(e).__name__, None, msg)


def classify_js(err):
    """err: {name,type,msg} from the node driver"""
    msg = err.get('msg', '')
    name = err.get('name')
    if name == 'RbqlRuntimeError':
        m = _RX_B.search(msg.split('Details:')[0])
        if m:
            return ('runtime_b', int(m.group(1)), msg)
        m = _RX_REC.search(msg.split('Details:')[0])
        if m:
            return ('runtime', int(m.group(1)), msg)
        return ('runtime', None, msg)
    if name == 'RbqlParsingError':
        return ('parsing', None, msg)
    if name == 'RbqlIOHandlingError':
        return ('io', None, msg)
    return ('EXC:' + str(name), None, msg)


def run_py(text, A, B=None, a_names=None, b_names=None, timeout=10.0, normalize=True, _second_try=False):
    """Run query_table on private copies. Returns dict(records, header, warnings, error)."""
    eng = tree.engine()
    out, warns, names = [], [], []
    try:
        with core.watchdog(timeout):
            eng.query_table(text, A, out, warns, B, a_names, b_names, names, normalize)
        return {'records': out, 'header': names if names else None, 'warnings': warns, 'error': None}
    except BaseException as e:
        if isinstance(e, (KeyboardInterrupt, SystemExit)):
            raise
        if isinstance(e, core.CaseTimeout) and _second_try:
            _CONFIRMED_TIMEOUTS[0] += 1
        if isinstance(e, core.CaseTimeout) and not _second_try and _CONFIRMED_TIMEOUTS[0] < 3:
            # a timeout is a wall-clock judgement: confirm it once with a 12x budget on private copies before it may become a verdict
            return run_py(text, [list(r) if isinstance(r, list) else r for r in A], None if B is None else [list(r) if isinstance(r, list) else r for r in B], a_names, b_names, timeout * 12, normalize, True)
        return {'records': None, 'partial': out, 'header': None, 'warnings': warns, 'error': classify_py(e)}


def run_py_registry(text, A, B=None, a_names=None, b_names=None, join_id='b', decoys=(), decoys_first=True, timeout=10.0):
    """Like run_py, through rbql.query + TableIterator + a user ListTableRegistry that holds the join table under join_id next to decoy tables
    (decoys: list of (table_id, table)). The join table must be found by its exact id."""
    eng = tree.engine()
    out, warns = [], []
    w = eng.TableWriter(out)
    try:
        infos = [eng.ListTableInfo(join_id, B, b_names)] if B is not None else []
        dec = [eng.ListTableInfo(i, t, b_names) for i, t in decoys]
        reg = eng.ListTableRegistry(dec + infos if decoys_first else infos + dec)
        with core.watchdog(timeout):
            eng.query(text, eng.TableIterator(A, a_names), w, warns, reg)
        return {'records': out, 'header': w.header if w.header else None, 'warnings': warns, 'error': None}
    except BaseException as e:
        if isinstance(e, (KeyboardInterrupt, SystemExit)):
            raise
        return {'records': None, 'partial': out, 'header': None, 'warnings': warns, 'error': classify_py(e)}
