// Batch driver: JSONL cases on stdin -> JSONL results on stdout. Requires the tree's rbql-js by absolute path.
'use strict';
const path = require('path');
const fs = require('fs');
const os = require('os');
const stream = require('stream');
const root = process.env.VERIF_JS_ROOT || '/repo/rbql-js';
const rbql = require(path.join(root, 'rbql.js'));
const rbql_csv = require(path.join(root, 'rbql_csv.js'));
const csv_utils = require(path.join(root, 'csv_utils.js'));

function err_info(e) {
    let name = (e && e.constructor && e.constructor.name) ? e.constructor.name : 'unknown';
    let type = 'unexpected';
    try { type = rbql.exception_to_error_info(e)[0]; } catch (e2) {}
    return {name: name, type: type, msg: String(e && e.message !== undefined ? e.message : e)};
}

function enc(v) {
    // JSON-safe encoding of JS values that JSON would blur
    if (v === undefined) return {"$": "undefined"};
    if (typeof v === 'number' && !Number.isFinite(v)) return {"$": String(v)};
    if (Array.isArray(v)) return v.map(enc);
    if (v !== null && typeof v === 'object') return {"$": "object", "s": String(v)};
    return v;
}

class PieceStream extends stream.Readable {
    // delivers the prescribed pieces, one per event-loop turn
    constructor(pieces) { super(); this.pieces = pieces.slice(); this.scheduled = false; }
    _read() {
        if (this.scheduled) return;
        this.scheduled = true;
        const step = () => {
            if (this.pieces.length === 0) { this.push(null); return; }
            let p = this.pieces.shift();
            this.push(p);
            setImmediate(step);
        };
        setImmediate(step);
    }
}

class MemWritable extends stream.Writable {
    constructor() { super(); this.chunks = []; }
    _write(chunk, encoding, cb) { this.chunks.push(Buffer.isBuffer(chunk) ? chunk : Buffer.from(chunk, encoding)); cb(); }
    setDefaultEncoding(e) { return super.setDefaultEncoding(e); }
}

let scratch = null;
function scratch_dir() {
    if (scratch === null) {
        let base = fs.existsSync('/dev/shm') ? '/dev/shm' : os.tmpdir();
        scratch = fs.mkdtempSync(path.join(base, 'vfjs-'));
    }
    return scratch;
}

let current_fail = null;
process.on('uncaughtException', (e) => { if (current_fail) { current_fail(e); } else { console.error('uncaught outside a case', e); process.exit(4); } });

function guarded(factory, ms) {
    // a case that never completes (lost wake-up in the reader) or throws from an event handler is a result, not a driver failure
    return new Promise((resolve) => {
        let done = false;
        let timer = setTimeout(() => {
            if (!done) { done = true; current_fail = null; resolve({error: {name: 'HANG', type: 'hang', msg: 'no result within ' + ms + ' ms'}}); }
        }, ms);
        current_fail = (e) => { if (!done) { done = true; clearTimeout(timer); current_fail = null; resolve({error: err_info(e), uncaught: true}); } };
        factory().then(
            (r) => { if (!done) { done = true; clearTimeout(timer); current_fail = null; resolve(r); } },
            (e) => { if (!done) { done = true; clearTimeout(timer); current_fail = null; resolve({error: err_info(e)}); } });
    });
}

const HANG_MS = parseInt(process.env.VERIF_JS_HANG_MS || '10000');

async function read_case(c) {
    return guarded(() => read_case_inner(c), HANG_MS);
}

async function read_case_inner(c) {
    let it;
    let pieces = null;
    let tmp = null;
    if (c.mode === 'bulk') {
        tmp = path.join(scratch_dir(), 'f' + process.pid + '.csv');
        fs.writeFileSync(tmp, Buffer.from(c.hex, 'hex'));
        it = new rbql_csv.CSVRecordIterator(null, tmp, c.encoding, c.dlm, c.policy, !!c.has_header, (c.comment_prefix === undefined ? null : c.comment_prefix));
    } else if (c.mode === 'file_stream') {
        tmp = path.join(scratch_dir(), 'g' + process.pid + '.csv');
        fs.writeFileSync(tmp, Buffer.from(c.hex, 'hex'));
        it = new rbql_csv.CSVRecordIterator(fs.createReadStream(tmp), null, c.encoding, c.dlm, c.policy, !!c.has_header, (c.comment_prefix === undefined ? null : c.comment_prefix));
    } else {
        pieces = c.pieces.map(h => Buffer.from(h, 'hex'));
        let ps = new PieceStream(pieces);
        if (c.text_stream) ps.setEncoding('latin1');      // a text stream: the same pieces arrive as strings (one latin-1 character per byte)
        it = new rbql_csv.CSVRecordIterator(ps, null, c.encoding, c.dlm, c.policy, !!c.has_header, (c.comment_prefix === undefined ? null : c.comment_prefix));
    }
    let out = {};
    try {
        let header = null;
        if (c.has_header) header = await it.get_header();
        let recs;
        if (c.slow_consumer) {
            // the way rbql.query() with an asynchronous writer consumes the iterator: one record, then back to the event loop
            recs = [];
            while (true) {
                let r = await it.get_record();
                if (r === null) break;
                recs.push(r);
                await new Promise(resolve => setImmediate(resolve));
            }
        } else {
            recs = await it.get_all_records();
        }
        out.records = recs;
        out.header = header;
        out.warnings = it.get_warnings();
    } catch (e) {
        out.error = err_info(e);
    }
    return out;
}

function result_key(r) { return JSON.stringify(r); }

async function readcomp_case(c) {
    // Explorer over the stream's delivery: every composition of the byte string into successive chunks
    let data = Buffer.from(c.hex, 'hex');
    let n = data.length;
    let base = await read_case(Object.assign({}, c, {mode: 'stream', pieces: n ? [c.hex] : []}));
    let bulk = await read_case(Object.assign({}, c, {mode: 'bulk'}));
    let basekey = result_key(base);
    let diffs = [];
    let ndiff = 0;
    let executions = 0;
    let chunks_delivered = 0;
    let total = n > 0 ? (1 << (n - 1)) : 1;
    for (let mask = 1; mask < total; mask++) {
        let pieces = [];
        let start = 0;
        for (let j = 0; j < n - 1; j++) {
            if ((mask >> j) & 1) { pieces.push(data.subarray(start, j + 1).toString('hex')); start = j + 1; }
        }
        pieces.push(data.subarray(start).toString('hex'));
        let r = await read_case(Object.assign({}, c, {mode: 'stream', pieces: pieces}));
        if (c.also_slow_consumer && result_key(r) === basekey) {
            r = await read_case(Object.assign({}, c, {mode: 'stream', pieces: pieces, slow_consumer: true}));
            executions += 1;
        }
        executions += 1;
        chunks_delivered += pieces.length;
        if (result_key(r) !== basekey) {
            ndiff += 1;
            if (diffs.length < 3) diffs.push({pieces: pieces, result: r});
            if (r.error && r.error.name === 'HANG' && ndiff >= 2) break;   // do not wait for every hanging composition
        }
    }
    return {base: base, bulk: bulk, executions: executions, chunks: chunks_delivered, ndiff: ndiff, diffs: diffs};
}

async function readcuts_case(c) {
    // deviation-bounded delivery exploration for longer inputs: every way to cut the bytes with at most c.maxcuts cut points
    let data = Buffer.from(c.hex, 'hex');
    let n = data.length;
    let base = await read_case(Object.assign({}, c, {mode: 'stream', pieces: n ? [c.hex] : []}));
    let bulk = await read_case(Object.assign({}, c, {mode: 'bulk'}));
    let basekey = result_key(base);
    let diffs = [], ndiff = 0, executions = 0, chunks = 0;
    let cuts = [];
    async function rec(start_from, depth) {
        if (depth > 0) {
            let pts = [0].concat(cuts).concat([n]);
            let pieces = [];
            for (let i = 0; i + 1 < pts.length; i++) pieces.push(data.subarray(pts[i], pts[i + 1]).toString('hex'));
            let r = await read_case(Object.assign({}, c, {mode: 'stream', pieces: pieces}));
            executions += 1; chunks += pieces.length;
            if (result_key(r) !== basekey) { ndiff += 1; if (diffs.length < 3) diffs.push({pieces: pieces, result: r}); }
        }
        if (depth == c.maxcuts) return;
        for (let p = start_from; p < n; p++) { cuts.push(p); await rec(p + 1, depth + 1); cuts.pop(); if (ndiff > 20) return; }
    }
    await rec(1, 0);
    return {base: base, bulk: bulk, executions: executions, chunks: chunks, ndiff: ndiff, diffs: diffs};
}

async function readcutlist_case(c) {
    // long inputs: one-piece delivery against every listed two-piece delivery (cut positions given by the caller) and uniform chunk sizes
    let data = Buffer.from(c.hex, 'hex');
    let n = data.length;
    let base = await read_case(Object.assign({}, c, {mode: 'stream', pieces: [c.hex]}));
    let bulk = await read_case(Object.assign({}, c, {mode: 'bulk'}));
    let basekey = result_key(base);
    let diffs = [], ndiff = 0, executions = 0, chunks = 0;
    for (let p of c.cuts) {
        if (p <= 0 || p >= n) continue;
        let pieces = [data.subarray(0, p).toString('hex'), data.subarray(p).toString('hex')];
        let r = await read_case(Object.assign({}, c, {mode: 'stream', pieces: pieces}));
        executions += 1; chunks += 2;
        if (result_key(r) !== basekey) { ndiff += 1; if (diffs.length < 3) diffs.push({pieces: [String(p) + ' bytes', String(n - p) + ' bytes'], cut: p, result: r}); }
    }
    for (let size of (c.uniform || [])) {
        let pieces = [];
        for (let i = 0; i < n; i += size) pieces.push(data.subarray(i, Math.min(n, i + size)).toString('hex'));
        let r = await read_case(Object.assign({}, c, {mode: 'stream', pieces: pieces}));
        executions += 1; chunks += pieces.length;
        if (result_key(r) !== basekey) { ndiff += 1; if (diffs.length < 3) diffs.push({pieces: ['uniform chunks of ' + size + ' bytes'], result: r}); }
    }
    return {base: base, bulk: bulk, executions: executions, chunks: chunks, ndiff: ndiff, diffs: diffs};
}

async function write_case(c) {
    let ms = new MemWritable();
    let out = {};
    try {
        let w = new rbql_csv.CSVWriter(ms, false, c.encoding, c.dlm, c.policy, c.line_separator === undefined ? '\n' : c.line_separator);
        if (c.header) w.set_header(c.header.slice());
        for (let rec of c.table) await w.write(rec.slice());
        await w.finish();
        await new Promise(r => setImmediate(r));
        out.hex = Buffer.concat(ms.chunks).toString('hex');
        out.warnings = w.get_warnings();
    } catch (e) {
        out.error = err_info(e);
    }
    return out;
}

async function query_case(c) {
    let input = c.input;
    let join = (c.join === undefined) ? null : c.join;
    let output = [];
    let warnings = [];
    let out_names = [];
    let out = {};
    try {
        await rbql.query_table(c.query, input, output, warnings, join, c.input_names === undefined ? null : c.input_names,
            c.join_names === undefined ? null : c.join_names, out_names, c.normalize === undefined ? true : c.normalize, c.init || '');
        out.records = enc(output);
        out.header = out_names;
        out.warnings = warnings;
        // aliasing: does any output row share identity with an input / join row
        let alias = false;
        for (let r of output) {
            if (input.indexOf(r) !== -1) alias = true;
            if (join && join.indexOf(r) !== -1) alias = true;
        }
        out.alias = alias;
    } catch (e) {
        out.error = err_info(e);
        out.partial = enc(output);
    }
    out.input_after = enc(input);
    if (join) out.join_after = enc(join);
    return out;
}

async function lasso_case(c) {
    // an input iterator that replays a finite table forever, counts pulls and gives up at a horizon
    class Horizon extends Error {}
    class Lasso extends rbql.TableIterator {
        constructor(table, horizon) { super(table); this.pulls = 0; this.horizon = horizon; }
        async get_record() {
            if (this.pulls >= this.horizon) throw new Horizon('horizon');
            let rec = this.table[this.pulls % this.table.length];
            this.pulls += 1;
            return rec;
        }
    }
    class Rec extends rbql.RBQLOutputWriter {
        constructor(it) { super(); this.rows = []; this.pulls_at_write = []; this.it = it; }
        async write(fields) { this.rows.push(fields); this.pulls_at_write.push(this.it.pulls); return true; }
    }
    // a user's own iterator class: only the two methods every RBQLInputIterator must implement (get_variables_map, get_record)
    class PlainLasso extends rbql.RBQLInputIterator {
        constructor(table, horizon) { super(); this.table = table; this.pulls = 0; this.horizon = horizon; }
        async get_variables_map(query_text) {
            let m = new Object();
            rbql.parse_basic_variables(query_text, 'a', m);
            rbql.parse_array_variables(query_text, 'a', m);
            return m;
        }
        async get_record() {
            if (this.pulls >= this.horizon) throw new Horizon('horizon');
            let rec = this.table[this.pulls % this.table.length];
            this.pulls += 1;
            return rec;
        }
    }
    let it = c.plain ? new PlainLasso(c.table, c.horizon) : new Lasso(c.table, c.horizon);
    let w = new Rec(it);
    try {
        await rbql.query(c.query, it, w, []);
        return {records: enc(w.rows), pulls: it.pulls, pulls_at_write: w.pulls_at_write};
    } catch (e) {
        if (e instanceof Horizon || (e && e.message && String(e.message).indexOf('horizon') != -1)) return {horizon: true, records: enc(w.rows), pulls: it.pulls};
        return {error: err_info(e), pulls: it.pulls};
    }
}

async function query_csv_case(c) {
    // rbql-js query_csv on real files (written by the caller); returns the output file content
    let warnings = [];
    let out_path = c.out_path;
    try { fs.unlinkSync(out_path); } catch (e) {}
    try {
        await rbql_csv.query_csv(c.query, c.input_path, c.dlm, c.policy, out_path, c.dlm, c.policy, 'utf-8', warnings, !!c.with_headers, null, '', c.bulk ? {'bulk_read': true} : null);
        let content = fs.existsSync(out_path) ? fs.readFileSync(out_path).toString('utf-8') : null;
        return {output: content, warnings: warnings};
    } catch (e) {
        return {error: err_info(e)};
    }
}

async function handle(c) {
    switch (c.op) {
        case 'split': {
            try {
                if (typeof csv_utils.smart_split !== 'function') {
                    if (typeof csv_utils.split_quoted_str === 'function' && (c.policy === 'quoted' || c.policy === 'quoted_rfc')) {
                        let r2 = csv_utils.split_quoted_str(c.line, c.dlm, !!c.preserve);
                        return {fields: r2[0], warning: !!r2[1]};
                    }
                    return {skip: true};     // helper refactored away: the reader-level comparisons still decide
                }
                let r = csv_utils.smart_split(c.line, c.dlm, c.policy, !!c.preserve);
                return {fields: r[0], warning: !!r[1]};
            } catch (e) { return {error: err_info(e)}; }
        }
        case 'quote': {
            try {
                return {q: csv_utils.quote_field(c.field, c.dlm), rfc: csv_utils.rfc_quote_field(c.field, c.dlm)};
            } catch (e) { return {error: err_info(e)}; }
        }
        case 'like': {
            try {
                // public path: a query over one row
                let output = [];
                await rbql.query_table('select like(a1, a2)', c.rows, output, []);
                return {r: output.map(x => x[0])};
            } catch (e) { return {error: err_info(e)}; }
        }
        case 'read': return await read_case(c);
        case 'readcomp': return await readcomp_case(c);
        case 'readcuts': return await readcuts_case(c);
        case 'readcutlist': return await readcutlist_case(c);
        case 'lasso': return await lasso_case(c);
        case 'query_csv': return await guarded(() => query_csv_case(c), HANG_MS);
        case 'write': return await write_case(c);
        case 'query': return await query_case(c);
        case 'header': {
            try {
                let output = [], names = [];
                await rbql.query_table(c.query, c.input, output, [], c.join === undefined ? null : c.join, c.input_names === undefined ? null : c.input_names,
                    c.join_names === undefined ? null : c.join_names, names);
                return {header: names, width: output.length ? output[0].length : null};
            } catch (e) { return {error: err_info(e)}; }
        }
        default: return {error: {name: 'driver', type: 'driver', msg: 'unknown op ' + c.op}};
    }
}

async function main() {
    let data = fs.readFileSync(0, 'utf-8');
    let lines = data.split('\n');
    let outs = [];
    for (let line of lines) {
        if (!line) continue;
        let c = JSON.parse(line);
        let r;
        try { r = await handle(c); } catch (e) { r = {error: err_info(e), driver_escape: true}; }
        outs.push(JSON.stringify(r));
        if (outs.length >= 5000) { fs.writeSync(1, outs.join('\n') + '\n'); outs = []; }
    }
    if (outs.length) fs.writeSync(1, outs.join('\n') + '\n');
    if (scratch !== null) { try { fs.rmSync(scratch, {recursive: true, force: true}); } catch (e) {} }
}

main().then(() => { process.exit(0); }).catch(e => { console.error('driver crash', e); process.exit(3); });
