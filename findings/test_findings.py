"""Plain unit tests replaying every genuine defect the checks reported, without the explorers.

Run:  cd /verif && /venv/bin/python -m unittest findings.test_findings -v
Each test states the failing input exactly as first reported (see findings/<id>/*.json) and asserts the
behaviour the property requires. Tests of *fixed* findings pass on the repaired tree and fail on the pinned
one; the two *known* findings (F7, F15) are expected failures.
"""
import io, os, sys, json, errno, unittest, subprocess

sys.path.insert(0, os.path.dirname(os.path.dirname(os.path.realpath(__file__))))
from vf import tree, js

rbql = tree.load()
eng = tree.engine()
rc = tree.csvmod()
cu = tree.csv_utils()


def q(text, A, B=None, an=None, bn=None):
    out, warns, names = [], [], []
    eng.query_table(text, [list(r) for r in A], out, warns, [list(r) for r in B] if B is not None else None, an, bn, names)
    return out, names, warns


def jsq(text, A, B=None, an=None, bn=None):
    c = {'op': 'query', 'query': text, 'input': A}
    if B is not None:
        c['join'] = B
    if an is not None:
        c['input_names'] = an
    if bn is not None:
        c['join_names'] = bn
    return js.run_batch([c])[0]


class Fixed(unittest.TestCase):
    def test_F1_unnest_with_multi_match_join(self):
        out, _, _ = q('SELECT UNNEST([a1, b2]) INNER JOIN b ON a1 == b1', [['foo']], [['foo', 'p'], ['foo', 'q']])
        self.assertEqual(out, [['foo'], ['p'], ['foo'], ['q']])
        self.assertEqual(jsq('SELECT UNNEST([a1, b2]) INNER JOIN b ON a1 == b1', [['foo']], [['foo', 'p'], ['foo', 'q']])['records'], [['foo'], ['p'], ['foo'], ['q']])

    def test_F2_subscript_names(self):
        self.assertEqual(q('SELECT a[2], a["city"]', [['x', 'y', 'z']], an=['name', 'val', 'city'])[1], ['val', 'city'])

    def test_F3_distinct_count_header(self):
        out, names, _ = q('SELECT DISTINCT COUNT a1', [['x', 'y'], ['x', 'z']], an=['name', 'val'])
        self.assertEqual(len(names), len(out[0]))
        r = jsq('SELECT DISTINCT COUNT a1', [['x', 'y'], ['x', 'z']], an=['name', 'val'])
        self.assertEqual(len(r['header']), len(r['records'][0]))

    def test_F4_js_update_does_not_touch_input(self):
        r = jsq("UPDATE SET a1 = 'Z'", [['foo']])
        self.assertEqual(r['input_after'], [['foo']])
        self.assertFalse(r['alias'])

    def test_F5_multichar_delimiter(self):
        self.assertEqual(cu.split_quoted_str('"::', '::'), (['"', ''], True))
        self.assertEqual(cu.split_quoted_str('"a::b"::c', '::'), (['a::b', 'c'], False))

    def test_F6_F14_js_stream_reader_multibyte_and_bom(self):
        data = 'é,€\n'.encode()
        r = js.run_batch([{'op': 'readcomp', 'hex': data.hex(), 'encoding': 'utf-8', 'dlm': ',', 'policy': 'simple', 'has_header': False, 'comment_prefix': None},
                          {'op': 'readcomp', 'hex': '﻿a,b\n'.encode().hex(), 'encoding': 'utf-8', 'dlm': ',', 'policy': 'simple', 'has_header': False, 'comment_prefix': None}])
        self.assertEqual(r[0]['ndiff'], 0)
        self.assertEqual(r[0]['base']['records'], [['é', '€']])
        self.assertEqual(r[1]['base'], r[1]['bulk'])

    def test_F8_js_group_order(self):
        r = jsq('SELECT a1, COUNT(*) GROUP BY a1', [['foo z', 'u'], ['foo', 'u']])
        self.assertEqual([x[0] for x in r['records']], ['foo', 'foo z'])

    def test_F9_bounded_query_stops_pulling(self):
        class Endless(eng.TableIterator):
            pulls = 0

            def get_record(self):
                if self.pulls > 50:
                    raise AssertionError('still pulling after 50 records')
                self.pulls += 1
                return ['foo', 'foo']
        for text, need in (('SELECT TOP 1 DISTINCT a1', 1), ('SELECT a1 LIMIT 2', 2), ('SELECT a1 LIMIT 0', 0)):
            it = Endless([])
            out = []
            eng.query(text, it, eng.TableWriter(out), [])
            self.assertEqual(it.pulls, need, text)

    def test_F10_zero_field_record_no_separator_warning(self):
        warns = []
        eng.query('select *', eng.TableIterator([[]]), rc.CSVWriter(io.StringIO(), False, None, ',', 'simple'), warns)
        self.assertEqual(warns, [])

    def test_F11_lone_parenthesised_tuple(self):
        out, names, _ = q('SELECT (a1, a2)', [['x', 'y']], an=['name', 'val'])
        self.assertEqual(len(names), len(out[0]))

    def test_F12_js_order_by_ties_within_one_record(self):
        r = jsq('SELECT a1, UNNEST([a1, a2]) ORDER BY a1', [['foo', 'bar']])
        self.assertEqual(r['records'], [['foo', 'foo'], ['foo', 'bar']])

    def test_F13_js_writer_no_spurious_separator_warning(self):
        r = js.run_batch([{'op': 'write', 'table': [[':', ';']], 'encoding': 'utf-8', 'dlm': ':;', 'policy': 'simple'}])[0]
        self.assertEqual(r['warnings'], [])

    def test_F16_placeholder_like_text_in_literals(self):
        self.assertEqual(q("UPDATE SET a1 = '___RBQL_STRING_LITERAL0___'", [['x']])[0], [['___RBQL_STRING_LITERAL0___']])
        self.assertEqual(q('SELECT "___RBQL_STRING_LITERAL1___", \'tail\'', [['x']])[0], [['___RBQL_STRING_LITERAL1___', 'tail']])

    def test_F17_js_literal_ending_in_escaped_backslash(self):
        self.assertEqual(jsq("SELECT '\\\\', 'tail', a1 WHERE a1 != 'zzz'", [['foo']])['records'], [['\\', 'tail', 'foo']])

    def test_F18_join_header_warning_follows_with_modifier(self):
        import tempfile, shutil
        d = tempfile.mkdtemp()
        try:
            for n, body in (('t1.csv', 'name,val\nk,1\n'), ('t2.csv', 'name,jv\nk,p\n')):
                with open(os.path.join(d, n), 'w') as f:
                    f.write(body)
            warns = []
            rbql.query_csv('select a1, b2 join t2.csv on a1 == b1 with (noheader)', os.path.join(d, 't1.csv'), ',', 'quoted', os.path.join(d, 'o.csv'), ',', 'quoted', 'utf-8', warns, True)
            self.assertEqual([w for w in warns if 'treated as header' in w], [])
        finally:
            shutil.rmtree(d)

    def test_F19_js_like_non_bmp(self):
        self.assertEqual(js.run_batch([{'op': 'like', 'rows': [['\U0001F600', '_'], ['\U0001F600', '__']]}])[0]['r'], [True, False])


    def test_F20_js_aggregates_reject_blank_strings(self):
        r = jsq('SELECT MIN(a1)', [['']])
        self.assertIn('error', r)
        self.assertEqual(r['error']['name'], 'RbqlRuntimeError')


    def test_F21_column_named_like_the_literal_placeholder(self):
        names = ['___RBQL_STRING_LITERAL0___', 'val']
        self.assertEqual(q("SELECT a['___RBQL_STRING_LITERAL0___'], NR", [['foo', 'x'], ['bar', 'y']], an=names)[0], [['foo', 1], ['bar', 2]])
        self.assertEqual(jsq("SELECT a['___RBQL_STRING_LITERAL0___'], NR", [['foo', 'x'], ['bar', 'y']], an=names)['records'], [['foo', 1], ['bar', 2]])

    def test_F22_js_header_of_quoted_name_with_escapes(self):
        for name in ('\t', 'x\ny', 'p\\"q', "it's"):
            lit = '"' + name.replace('\\', '\\\\').replace('"', '\\"').replace('\n', '\\n').replace('\t', '\\t') + '"'
            r = jsq('SELECT a[%s], NR' % lit, [['foo', 'x']], an=[name, 'val'])
            self.assertEqual(r.get('header'), [name, 'NR'], name)
            self.assertEqual(q('SELECT a[%s], NR' % lit, [['foo', 'x']], an=[name, 'val'])[1], [name, 'NR'], name)


class Known(unittest.TestCase):
    @unittest.expectedFailure
    def test_F7_attribute_like_text_in_literal_with_header(self):
        self.assertEqual(q("SELECT a1, 'a.zz'", [['x', 'y']], an=['name', 'val'])[0], [['x', 'a.zz']])

    @unittest.expectedFailure
    def test_F15_header_write_fault_in_buffering_query(self):
        class Broken(object):
            def write(self, s):
                raise BrokenPipeError(errno.EPIPE, 'Broken pipe')

            def flush(self):
                raise BrokenPipeError(errno.EPIPE, 'Broken pipe')

        class Counting(eng.TableIterator):
            pulls = 0

            def get_record(self):
                self.pulls += 1
                return eng.TableIterator.get_record(self)
        it = Counting([['k', '1'], ['m', '2'], ['n', '3']], ['c1', 'c2'])
        saved = sys.stdout
        sys.stdout = io.StringIO()
        try:
            eng.query('select a2 order by a1', it, rc.CSVWriter(Broken(), False, None, ',', 'quoted'), [])
        finally:
            sys.stdout = saved
        self.assertLessEqual(it.pulls, 1)


if __name__ == '__main__':
    unittest.main()
