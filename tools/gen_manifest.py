#!/usr/bin/env python3
"""Regenerate MANIFEST.json from tools/manifest_data.json (claimed checks) and properties.jsonl."""
import json, os
HERE = os.path.dirname(os.path.dirname(os.path.realpath(__file__)))
props = [json.loads(l) for l in open(os.path.join(HERE, 'properties.jsonl'))]
data = json.load(open(os.path.join(HERE, 'tools', 'manifest_data.json')))
checks = []
na = []
for p in props:
    pid = p['id']
    d = data['checks'].get(pid)
    if d is None or not os.path.exists(os.path.join(HERE, 'vf', 'checks', pid.lower() + '.py')):
        na.append({'property_id': pid, 'reason': data['not_built_reason'].get(pid, 'check not built yet in this session; planned per DESIGN.md section 3')})
        continue
    checks.append({
        'property_id': pid,
        'quick_cmd': '/venv/bin/python -m vf.run %s --tier quick' % pid,
        'thorough_cmd': '/venv/bin/python -m vf.run %s --tier thorough' % pid,
        'evidence_file': '/verif/evidence/%s.json' % pid,
        'replay_cmd_template': '/venv/bin/python -m vf.run %s --replay {path}' % pid,
        'engine': d.get('engine', 'vf'),
        'level_claimed': {'category': 'model_checking', 'text': d['text'], 'design_ref': d.get('design_ref', 'DESIGN.md section 3, ' + pid)},
        'level_note': d['note'],
        'technique': d['technique'],
    })
m = {
    'version': 1,
    'setup_cmd': '/venv/bin/python -m compileall -q vf',
    'hooks': {'guard': 'RBQL_VERIF', 'enable': 'no source hooks are needed: every observation point is reachable through public interfaces (own iterator/writer/stream objects, /proc/self/fd, sqlite trace callback); the guard is unused',
              'baseline_off_cmd': 'cd /repo && /venv/bin/python -m pytest -ra -q -p no:cacheprovider --timeout=900 --continue-on-collection-errors',
              'source_commits': [], 'add_only': True},
    'engines': data['engines'],
    'checks': checks,
    'notes': data['notes'],
    'not_applicable': na,
}
json.dump(m, open(os.path.join(HERE, 'MANIFEST.json'), 'w'), indent=1)
print('claimed', [c['property_id'] for c in checks], 'not_applicable', [n['property_id'] for n in na])
