#!/usr/bin/env python3
"""report.py evidence -> markdown table of what each check covered; report.py sweep <log> -> seeded/RESULTS.md"""
import sys, os, json, glob, re
HERE = os.path.dirname(os.path.dirname(os.path.realpath(__file__)))
if sys.argv[1] == 'evidence':
    print('| check | tier | executions | states | transitions | non-trivial | distinct outcomes | wall s | known findings seen |')
    print('|---|---|---|---|---|---|---|---|---|')
    for f in sorted(glob.glob(os.path.join(HERE, 'evidence', 'C*.json'))):
        e = json.load(open(f)); c = e['coverage']
        print('| %s | %s | %d | %d | %d | %d | %d | %.0f | %s |' % (e['property_id'], e['tier'], c['evaluations'], c['states'], c['transitions'], c['distinct_nontrivial'], c.get('distinct_outcomes', 0), e['wall_s'], ', '.join(x.split(':')[0] for x in c.get('known_findings_seen', [])) or '-'))
elif sys.argv[1] == 'sweep':
    rows = {}
    for line in open(sys.argv[2]):
        m = re.match(r'SWEEP (\S+) (\S+) (.*)', line.strip())
        if m:
            rows.setdefault(m.group(1), []).append((m.group(2), m.group(3)))
    out = ['# Seeded changes vs checks (tier quick)', '', 'Each row: a change written by an independent sub-agent that breaks the named property while the pinned suite (and the tree-level unit tests of the pinned tree) still pass; confirmed with tools/confirm_seed.sh; run with tools/seed_sweep.sh.', '',
           '| seeded change | property | needs to manifest | detected by |', '|---|---|---|---|']
    for name in sorted(rows):
        meta = json.load(open(os.path.join(HERE, 'seeded', name, 'meta.json')))
        det = ', '.join('%s (%s)' % (p, 'VIOLATION' if 'rc=1' in r else ('not reported' if 'rc=0' in r else r)) for p, r in rows[name])
        out.append('| %s | %s | %s | %s |' % (name, meta['property'], meta.get('needs_to_manifest', '').replace('|', '/').replace('\n', ' ')[:260], det))
    open(os.path.join(HERE, 'seeded', 'RESULTS.md'), 'w').write('\n'.join(out) + '\n')
    print('\n'.join(out[:8]))
