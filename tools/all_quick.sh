#!/bin/bash
# usage: tools/all_quick.sh [seed] [tier] -- run every check once; prints one line per check
seed="${1:-0}"; tier="${2:-quick}"
cd "$(dirname "$0")/.."
for i in $(seq -w 1 20); do
  t0=$(date +%s)
  out=$(VERIF_SEED=$seed VERIF_OUT=${VERIF_OUT:-/verif} timeout 7200 /venv/bin/python -m vf.run C$i --tier $tier 2>&1); rc=$?
  echo "ALLQ seed=$seed tier=$tier C$i rc=$rc wall=$(( $(date +%s) - t0 ))s known=$(echo "$out" | grep -c '^KNOWN-FINDING') viol=$(echo "$out" | grep -c '^VIOLATION')"
  [ $rc -ne 0 ] && echo "$out" | tail -5 | cut -c1-300
done
