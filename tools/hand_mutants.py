#!/usr/bin/env python3
"""Create the hand-made mutants listed under **M** in DESIGN.md section 3 (exact text replacements) into mutants/<PID>/<name>.diff"""
import subprocess, sys, os
E = 'rbql-py/rbql/rbql_engine.py'; C = 'rbql-py/rbql/rbql_csv.py'; U = 'rbql-py/rbql/csv_utils.py'; J = 'rbql-js/rbql.js'; JC = 'rbql-js/rbql_csv.js'; JU = 'rbql-js/csv_utils.js'; M = 'rbql-py/rbql/rbql_main.py'; P = 'rbql-py/rbql/rbql_pandas.py'; S = 'rbql-py/rbql/rbql_sqlite.py'
MUT = [
 ('C01', 'safe_get_le', E, "    return record[idx] if idx < len(record) else None", "    return record[idx] if idx <= len(record) - 1 and idx != 2 else None"),
 ('C01', 'unnest_no_copy', E, "            out_fields = folded_fields[:]\n            out_fields[unnest_pos] = v", "            out_fields = folded_fields\n            out_fields[unnest_pos] = v"),
 ('C01', 'except_off_by_one', E, "        if i not in except_fields:", "        if i + (1 if len(except_fields) > 1 else 0) not in except_fields:"),
 ('C01', 'nr_after_body', E, "        NR += 1\n        NF = len(record_a)", "        NF = len(record_a)\n        NR += 1 if NF else 0"),
 ('C02', 'sorted_reverse_flag', E, "        sorted_entries = sorted(self.unsorted_entries, key=lambda x: x[0])\n        if self.reverse_sort:\n            sorted_entries.reverse()", "        sorted_entries = sorted(self.unsorted_entries, key=lambda x: x[0], reverse=self.reverse_sort)"),
 ('C02', 'top_gt', E, "        if self.NW >= self.top_count:\n            return False", "        if self.NW > self.top_count:\n            return False"),
 ('C02', 'limit0_ignored', E, "        if query_context.top_count is not None:\n            query_context.writer = TopWriter", "        if query_context.top_count:\n            query_context.writer = TopWriter"),
 ('C02', 'sorted_ignores_false', E, "        for e in sorted_entries:\n            if not self.subwriter.write(e[1]):\n                break", "        for e in sorted_entries:\n            self.subwriter.write(e[1])"),
 ('C03', 'median_even_index', E, "            a = sorted_vals[m - 1]\n            b = sorted_vals[m]", "            a = sorted_vals[m]\n            b = sorted_vals[min(m + 1, len(sorted_vals) - 1)]"),
 ('C03', 'avg_floor_div', E, "        return float(final_sum) / final_cnt\n", "        return final_sum // final_cnt if isinstance(final_sum, int) else float(final_sum) / final_cnt\n"),
 ('C03', 'keys_insertion_order', E, "        all_keys = sorted(list(self.aggregation_keys))", "        all_keys = list(self.aggregation_keys) if len(self.aggregation_keys) != 2 else sorted(list(self.aggregation_keys), reverse=True)"),
 ('C03', 'numhandler_stuck_int', E, "            except ValueError:\n                self.is_int = False\n        try:\n            return float(val)", "            except ValueError:\n                pass\n        try:\n            return float(val)"),
 ('C04', 'inner_first_match', E, "    def get_rhs(self, lhs_key):\n        return self.join_map.get_join_records(lhs_key)\n\n\nclass LeftJoiner", "    def get_rhs(self, lhs_key):\n        return self.join_map.get_join_records(lhs_key)[:2]\n\n\nclass LeftJoiner"),
 ('C04', 'left_null_width_first_row', E, "            self.max_record_len = max(self.max_record_len, nf)", "            self.max_record_len = self.max_record_len or nf"),
 ('C04', 'strict_gt_one', E, "        if len(result) != 1:\n            raise RbqlRuntimeError('In \"{}\" each key", "        if len(result) > 1:\n            raise RbqlRuntimeError('In \"{}\" each key"),
 ('C04', 'bnr_off_by_one', E, "            self.hash_map[key].append((nr, nf, fields))", "            self.hash_map[key].append((nr if nr < 3 else nr - 1, nf, fields))"),
 ('C05', 'up_fields_alias', E, "PROCESS_UPDATE_SIMPLE = '''\nup_fields = record_a[:]", "PROCESS_UPDATE_SIMPLE = '''\nup_fields = record_a"),
 ('C05', 'nu_after', E, "if __RBQLMP__where_expression:\n    NU += 1\n    __RBQLMP__update_expressions\nif not query_context.writer.write(up_fields):\n    stop_flag = True\n'''\n\n# We need", "if __RBQLMP__where_expression:\n    __RBQLMP__update_expressions\n    NU += 1\nif not query_context.writer.write(up_fields):\n    stop_flag = True\n'''\n\n# We need"),
 ('C05', 'safe_set_extends', E, "def safe_set(record, idx, value):\n    try:\n        record[idx] = value\n    except IndexError:\n        raise InternalBadFieldError(idx)", "def safe_set(record, idx, value):\n    try:\n        record[idx] = value\n    except IndexError:\n        if idx == len(record):\n            record.append(value)\n        else:\n            raise InternalBadFieldError(idx)"),
 ('C06', 'star_only_returns_input', E, "    replacement_expression = '] + ' + {'*': 'star_fields', 'a.*': 'record_a', 'b.*': 'record_b'}[star_expression] + ' + ['", "    replacement_expression = '] + ' + {'*': 'star_fields', 'a.*': 'record_a', 'b.*': 'record_b'}[star_expression] + ' + ['\n        if rbql_expression.strip() == 'a.*':\n            return '] and record_a or ['"),
 ('C06', 'sqlite_whitelist_loose', S, "        if re.match('^[a-zA-Z0-9_]*$', table_name) is None:", "        if re.match('^[^ ;]*$', table_name) is None:"),
 ('C07', 'colk_by_list_index', E, "        if qci is None:\n            output_header.append('col{}'.format(len(output_header) + 1))", "        if qci is None:\n            output_header.append('col{}'.format(query_column_infos.index(qci) + 1))"),
 ('C07', 'alias_case_sensitive', E, "    regexp_for_as_column_alias = r' +(AS|as) +([a-zA-Z][a-zA-Z0-9_]*) *(?=$|,)'", "    regexp_for_as_column_alias = r' +(AS) +([a-zA-Z][a-zA-Z0-9_]*) *(?=$|,)'"),
 ('C07', 'star_forgets_join_header', E, "            if qci.table_name is None:\n                output_header += input_header + join_header", "            if qci.table_name is None:\n                output_header += input_header"),
 ('C08', 'locate_case_sensitive', E, "            rgxp = r'(?i)(?:^| ){}(?= )'.format(statement.replace(' ', ' *'))", "            rgxp = r'(?:^| )(?:{}|{})(?= )'.format(statement.replace(' ', ' *'), statement.lower().replace(' ', ' *'))"),
 ('C08', 'no_rstrip_semicolon', E, "    return ' '.join(rbql_lines).rstrip(';')", "    return ' '.join(rbql_lines)"),
 ('C08', 'no_tab_replace', E, "    format_expression = format_expression.replace('\\t', ' ')\n", "    pass\n"),
 ('C08', 'from_a_case_sensitive', E, "    query_text = re.sub(' +from +a(?: +|$)', ' ', query_text, flags=re.IGNORECASE).strip()", "    query_text = re.sub(' +(?:from|FROM) +a(?: +|$)', ' ', query_text).strip()"),
 ('C09', 'escape_no_backslash', E, "    column_name = column_name.replace('\\\\', '\\\\\\\\')\n    column_name = column_name.replace('\\n', '\\\\n')", "    column_name = column_name.replace('\\n', '\\\\n')"),
 ('C09', 'first_record_emitted_under_header', C, "            self.first_record_should_be_emitted = not has_header", "            self.first_record_should_be_emitted = not has_header or policy == 'monocolumn' or (delim == ';')"),
 ('C09', 'modifier_not_forwarded_to_join', E, "        if WITH in rb_actions:\n            join_record_iterator.handle_query_modifier(rb_actions[WITH])", "        if WITH in rb_actions and rb_actions[WITH].endswith('s'):\n            join_record_iterator.handle_query_modifier(rb_actions[WITH])"),
 ('C10', 'rfc_forgets_cr', U, "    if src.find(delim) != -1 or src.find('\\n') != -1 or src.find('\\r') != -1:", "    if src.find(delim) != -1 or src.find('\\n') != -1:"),
 ('C10', 'writer_ignores_line_separator', C, "            self.stream.write(self.line_separator)\n            return True", "            self.stream.write('\\n')\n            return True"),
 ('C11', 'no_trailing_delim_branch', U, "    if cidx == len(src): # The last field was terminated by a (possibly multicharacter) delimiter\n        result.append('')", "    pass"),
 ('C11', 'lookahead_any_nonquote', U, "        if match_end == len(src) or src.startswith(dlm, match_end):", "        if match_end == len(src) or src[match_end] != '\"':"),
 ('C12', 'read_until_first_chunk', C, "            chunks.append(chunk)\n            if csv_utils.newline_rgx.search(chunk) is not None:\n                break", "            chunks.append(chunk)\n            break"),
 ('C12', 'rfc_quotes_per_first_row_only', C, "            if row.count('\"') % 2 == 1:\n                return '\\n'.join(rows_buffer)", "            if row.count('\"') >= 1:\n                return '\\n'.join(rows_buffer)"),
 ('C13', 'warnings_to_stdout', M, "    else:\n        eprint('Warning: ' + msg)", "    else:\n        print('Warning: ' + msg)"),
 ('C13', 'cli_swallows_failure', M, "        if not run_with_python_csv(args, is_interactive=False):\n            sys.exit(1)", "        if not run_with_python_csv(args, is_interactive=False):\n            sys.exit(1 if args.output is None else 0)"),
 ('C13', 'pandas_first_row_header', P, "        self.table_itertuples = self.table.itertuples(index=False)", "        self.table_itertuples = self.table.itertuples(index=False)\n        if self.column_names is None and len(table) > 2:\n            next(self.table_itertuples)"),
 ('C14', 'nr_minus_one_in_message', E, "            raise RbqlRuntimeError('At record ' + str(NR) + ', Details: ' + str(e)) # UT JSON", "            raise RbqlRuntimeError('At record ' + str(NR - (1 if NR > 2 else 0)) + ', Details: ' + str(e)) # UT JSON"),
 ('C14', 'field_count_warning_gt2', E, "        if len(self.fields_info) > 1:\n            return [make_inconsistent_num_fields_warning('input', self.fields_info)]", "        if len(self.fields_info) > 2:\n            return [make_inconsistent_num_fields_warning('input', self.fields_info)]"),
 ('C14', 'bom_flag_always_utf8', C, "                if clean_line != row:\n                    row = clean_line\n                    self.utf8_bom_removed = True", "                if clean_line != row or (self.encoding == 'utf-8' and row.startswith('\"')):\n                    row = clean_line\n                    self.utf8_bom_removed = True"),
 ('C15', 'broken_pipe_flag_never_set', C, "            self.broken_pipe = True\n            return False", "            return False"),
 ('C15', 'registry_does_not_close', C, "    def finish(self):\n        if self.input_stream is not None:\n            self.input_stream.close()", "    def finish(self):\n        if self.input_stream is not None and self.has_header:\n            self.input_stream.close()"),
 ('C15', 'no_decode_error_translation', C, "        except UnicodeDecodeError:\n            raise rbql_engine.RbqlIOHandlingError('Unable to decode input table as UTF-8. Use binary (latin-1) encoding instead')", "        except UnicodeDecodeError as e:\n            if e.start == 0:\n                raise\n            raise rbql_engine.RbqlIOHandlingError('Unable to decode input table as UTF-8. Use binary (latin-1) encoding instead')"),
 ('C16', 'debug_mode_left_on', E, "        except RbqlParsingError:\n            raise\n        except Exception as e:\n            if debug_mode:\n                raise", "        except RbqlParsingError:\n            set_debug_mode()\n            raise\n        except Exception as e:\n            if debug_mode:\n                raise"),
 ('C16', 'module_level_like_cache_ok', E, "        matcher = query_context.like_regex_cache.get(pattern, None)\n        if matcher is None:\n            matcher = re.compile(like_to_regex(pattern))\n            query_context.like_regex_cache[pattern] = matcher", "        matcher = GLOBAL_LIKE_CACHE.get(pattern, None)\n        if matcher is None:\n            matcher = re.compile(like_to_regex(pattern))\n            GLOBAL_LIKE_CACHE[pattern] = matcher"),
 ('C17', 'underscore_optional', E, "            if pattern[i] == '_':\n                converted += '.'", "            if pattern[i] == '_':\n                converted += '.?'"),
 ('C17', 'no_end_anchor', E, "    return '^' + converted + '$'", "    return '^' + converted"),
 ('C17', 'cache_keyed_by_text', E, "        matcher = query_context.like_regex_cache.get(pattern, None)", "        matcher = query_context.like_regex_cache.get(pattern[:3], None)"),
 ('C18', 'js_quote_no_doubling', JU, "function quote_field(src, delim) {\n    if (src.indexOf(delim) != -1 || src.indexOf('\"') != -1) {\n        var escaped = src.replace(/\"/g, '\"\"');", "function quote_field(src, delim) {\n    if (src.indexOf(delim) != -1 || src.indexOf('\"') != -1) {\n        var escaped = src.replace(/\"/, '\"\"');"),
 ('C18', 'js_split_lines_no_cr', JU, "    return text.split(/\\r\\n|\\r|\\n/);", "    return text.split(/\\r\\n|\\n/);"),
 ('C19', 'js_select_unnested_no_slice', J, "        if (!await select_simple(sort_key, NR, out_fields.slice()))", "        if (!await select_simple(sort_key, NR, out_fields))"),
 ('C19', 'js_parse_number_parseint', J, "    let result = Number(val);", "    let result = (typeof val === 'string' && val.indexOf('.') == -1) ? Number(val) : parseInt(val);"),
 ('C20', 'js_cr_flag_never_set', JC, "        this.partially_decoded_line_ends_with_cr = decoded_string.length && decoded_string[decoded_string.length - 1] == '\\r';", "        this.partially_decoded_line_ends_with_cr = false;"),
 ('C20', 'js_last_partial_line_dropped', JC, "        if (this.partially_decoded_line.length) {\n            let last_line = this.partially_decoded_line;", "        if (this.partially_decoded_line.length > 1) {\n            let last_line = this.partially_decoded_line;"),
]
extra_files = {('C16', 'module_level_like_cache_ok'): (E, "debug_mode = False\n", "debug_mode = False\nGLOBAL_LIKE_CACHE = dict()\n")}
os.chdir(os.path.dirname(os.path.dirname(os.path.realpath(__file__))))
ok = 0
for pid, name, f, old, new in MUT:
    args = ['tools/mkmut.py', 'mutants/%s/%s.diff' % (pid, name), f, old, new]
    if (pid, name) in extra_files:
        args += list(extra_files[(pid, name)])
    r = subprocess.run(args, stdout=subprocess.PIPE, stderr=subprocess.STDOUT)
    if r.returncode != 0:
        print('FAILED', pid, name, r.stdout.decode()[-200:])
    else:
        ok += 1
print('created', ok, 'of', len(MUT))
