#!/bin/bash
# usage: tools/seed_sweep.sh [tier] [name-filter]  -- run every seeded/<name>/patch.diff against the check of the property it breaks (from meta.json); prints one line per seed
tier="${1:-quick}"; filt="${2:-}"
cd /verif
if [ -n "$filt" ] && [ -d "seeded/$filt" ]; then dirs="seeded/$filt/"; else dirs=$(ls -d seeded/*${filt}*/); fi
for d in $dirs; do
  n=$(basename $d)
  pid=$(/venv/bin/python -c "import json,sys;print(json.load(open('$d/meta.json'))['property'])")
  extra=$(/venv/bin/python -c "import json,sys;print(' '.join(json.load(open('$d/meta.json')).get('also_checked_by',[])))")
  for p in $pid $extra; do
    if [ ! -f vf/checks/$(echo $p | tr A-Z a-z).py ]; then echo "SWEEP $n $p NOCHECK"; continue; fi
    out=$(tools/mutcheck.sh $d/patch.diff $p $tier 2>&1 | head -1)
    echo "SWEEP $n $p $(echo $out | sed 's/.*rc=/rc=/')"
  done
done
