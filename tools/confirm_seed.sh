#!/bin/bash
# usage: tools/confirm_seed.sh <seed-dir>   -- confirm a seeded change: demo passes on the clean tree, fails with the patch; tests still pass with the patch
set -u
d=$(realpath "$1")
scr=$(mktemp -d /dev/shm/vfseed.XXXXXX)
trap 'rm -rf "$scr"' EXIT
rsync -a --exclude .git /repo/ "$scr/clean/"
rsync -a --exclude .git /repo/ "$scr/mut/"
if ! (cd "$scr/mut" && patch -p1 -s --no-backup-if-mismatch < "$d/patch.diff"); then echo "CONFIRM $(basename $d): PATCH-FAILED"; exit 3; fi
demo=$(ls "$d"/demo.* | head -1)
run_demo() { if [[ "$demo" == *.py ]]; then (cd "$1" && timeout 300 /venv/bin/python -W ignore "$demo" "$1" >/dev/null 2>&1); else (cd "$1" && timeout 300 node "$demo" "$1" >/dev/null 2>&1); fi; echo $?; }
c=$(run_demo "$scr/clean"); m=$(run_demo "$scr/mut")
base=$(cd "$scr/mut" && /venv/bin/python -m pytest -q -p no:cacheprovider --timeout=900 --continue-on-collection-errors 2>&1 | tail -1)
ut() { (cd "$1" && PYTHONPATH="$1/rbql-py" /venv/bin/python -W ignore -m unittest test.test_csv_utils test.test_rbql test.test_mad_max test.test_rbql_sqlite test.test_rbql_pandas 2>&1 | grep -E "^(FAIL|ERROR):" | sort | tr '\n' ' '); }
u1=$(ut "$scr/clean"); u2=$(ut "$scr/mut")
js1=$(cd "$scr/clean/test" && node test_csv_utils.js 2>&1 | tail -1; cd "$scr/clean/test" && node test_rbql.js 2>&1 | md5sum)
js2=$(cd "$scr/mut/test" && node test_csv_utils.js 2>&1 | tail -1; cd "$scr/mut/test" && node test_rbql.js 2>&1 | md5sum)
ok=yes
[ "$c" != "0" ] && ok=no; [ "$m" == "0" ] && ok=no; [ "$u1" != "$u2" ] && ok=no; [ "$js1" != "$js2" ] && ok=no
echo "$base" | grep -q "45 passed" || ok=no
echo "CONFIRM $(basename $d): ok=$ok demo_clean=$c demo_mut=$m pytest='$base' unittest_same=$([ "$u1" == "$u2" ] && echo yes || echo "no[$u2]") js_same=$([ "$js1" == "$js2" ] && echo yes || echo no)"
