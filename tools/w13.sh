#!/bin/bash
# usage: tools/w13.sh <PID> <name> [check...]  -- import a wave-13 proposal from /tmp/wt/out/w13_<PID>, confirm it, run the named checks against it
pid=$1; name=$2; shift 2
d=/verif/seeded/${pid}_$name
mkdir -p $d; cp /tmp/wt/out/w13_$pid/patch.diff /tmp/wt/out/w13_$pid/demo.* /tmp/wt/out/w13_$pid/meta.json $d/ 2>/dev/null
/verif/tools/confirm_seed.sh $d
for c in ${@:-$pid}; do /verif/tools/mutcheck.sh $d/patch.diff $c quick 2>&1 | head -6; done
git -C /repo worktree remove --force /tmp/wt/w13_$pid 2>/dev/null
