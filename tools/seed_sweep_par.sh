#!/bin/bash
# usage: tools/seed_sweep_par.sh [jobs] [nproc-per-job] -- the full sweep, several seeded changes at a time (each check run with a smaller worker pool); one SWEEP line per (seed, check)
jobs="${1:-3}"; np="${2:-6}"
cd /verif
ls -d seeded/*/ | xargs -n1 basename | xargs -P "$jobs" -I{} sh -c "VERIF_NPROC=$np tools/seed_sweep.sh quick {}"
