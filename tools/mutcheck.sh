#!/bin/bash
# usage: tools/mutcheck.sh <patch.diff | -e 'sed-expr file'> <PID> [tier]   -- runs a check against a patched scratch copy of /repo
# Nothing is written to /repo or to /verif/evidence. The scratch copy is removed afterwards.
set -u
patch="$(realpath "$1")"; pid="$2"; tier="${3:-quick}"
scr=$(mktemp -d /dev/shm/vfmut.XXXXXX)
trap 'rm -rf "$scr"' EXIT
rsync -a --exclude .git /repo/ "$scr/repo/"
if ! (cd "$scr/repo" && patch -p1 -s --no-backup-if-mismatch < "$patch"); then echo "PATCH-FAILED $patch"; exit 3; fi
mkdir -p "$scr/out"
cd /verif
VERIF_REPO="$scr/repo" VERIF_OUT="$scr/out" timeout 3600 /venv/bin/python -m vf.run "$pid" --tier "$tier" > "$scr/log" 2>&1
rc=$?
nv=$(grep -c '^VIOLATION' "$scr/log")
echo "MUTCHECK patch=$(basename $(dirname $patch))/$(basename $patch) check=$pid tier=$tier rc=$rc violations=$nv"
grep -m3 -A3 'violation sig' "$scr/log" | cut -c1-400
[ $rc -ne 0 ] && [ $rc -ne 1 ] && tail -5 "$scr/log"
exit $rc
