#!/usr/bin/env python3
"""mkmut.py <out.diff> <file-relative-to-repo> <old> <new> [<file> <old> <new> ...] : make a mutant patch by exact text replacement (on a scratch copy)."""
import sys, os, subprocess, tempfile, shutil
out = os.path.abspath(sys.argv[1]); args = sys.argv[2:]
scr = tempfile.mkdtemp(dir='/dev/shm')
try:
    for d in ('a', 'b'):
        subprocess.check_call(['rsync', '-a', '--exclude', '.git', '/repo/', os.path.join(scr, d) + '/'])
    for i in range(0, len(args), 3):
        f, old, new = args[i:i + 3]
        p = os.path.join(scr, 'b', f)
        s = open(p).read()
        old = old.encode().decode('unicode_escape') if '\\n' in old else old
        new = new.encode().decode('unicode_escape') if '\\n' in new else new
        if s.count(old) != 1:
            sys.exit('pattern occurs %d times in %s: %r' % (s.count(old), f, old))
        open(p, 'w').write(s.replace(old, new))
    r = subprocess.run(['diff', '-ruN', 'a', 'b'], cwd=scr, stdout=subprocess.PIPE)
    os.makedirs(os.path.dirname(out), exist_ok=True)
    open(out, 'wb').write(r.stdout)
    print('wrote', out, len(r.stdout), 'bytes')
finally:
    shutil.rmtree(scr)
