#!/bin/bash
# run every mutants/<PID>/<name>.diff against the check <PID>
cd /verif
for f in mutants/C[0-9]*/*.diff; do
  pid=$(basename $(dirname $f))
  out=$(tools/mutcheck.sh $f $pid quick 2>&1 | head -1)
  echo "HAND $(basename $f .diff) $pid $(echo $out | sed 's/.*rc=/rc=/')"
done
